#!/bin/bash
# usage: process_seed.sh <tag> <property> [noeval]
# confirm a sub-agent's seeded change in its scratch worktree, then run the property's quick check against it
tag=$1; prop=$2
cd /verif
tools/confirm_seeded.sh /tmp/wt-$tag /tmp/seed-$tag > /tmp/seed-$tag/confirm.out 2>&1
[ -z "$3" ] && tools/eval_seeded.sh /tmp/seed-$tag/patch.diff $prop quick > /tmp/seed-$tag/eval.out 2>&1
echo "done $tag: $(tail -1 /tmp/seed-$tag/confirm.out) | $(head -1 /tmp/seed-$tag/eval.out 2>/dev/null)"
