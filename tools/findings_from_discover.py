#!/usr/bin/python3
# Development aid (never run by a registered command): turns the signature list of a completed
# `./verif discover <id> thorough` run (build/discover-<id>.json) into entries for known_findings.json.
# The file is then reviewed and committed by hand; checks only ever read it.
import sys, json, os
prop = sys.argv[1]
d = json.load(open('/verif/build/discover-%s.json' % prop))
kf = json.load(open('/verif/known_findings.json'))
have = {(f['property'], f['key']) for f in kf['findings']}
added = 0
for key, v in sorted(d['signatures'].items()):
    if (prop, key) in have:
        continue
    ex = v['example']
    kf['findings'].append({'property': prop, 'key': key, 'status': 'open',
                           'what': '%s (%d of the %d enumerated single-fault points; e.g. %s, fault %s on %s)' % (
                               key, v['count'], d['runs'], ex['params']['cmd'], ':'.join(str(x) for x in (ex['params']['fault'] or [])), ex['item']),
                           'example': ex, 'details': v['details']})
    added += 1
json.dump(kf, open('/verif/known_findings.json', 'w'), indent=1)
print('added', added, 'entries for', prop)
