#!/bin/bash
# usage: mk_scratch.sh <dir> [nobuild]
# Creates a scratch git worktree of /repo's HEAD at <dir> (outside /repo and /verif), copies the autotools-generated
# files that are not tracked, configures it in-tree (ccache) and builds it, so that 'make' and 'make -C tests check'
# work there exactly as in /repo.  Remove with: git -C /repo worktree remove --force <dir>
wt=$1
case "$wt" in /repo*|/verif*) echo "scratch trees live outside /repo and /verif"; exit 2;; esac
git -C /repo worktree add -q --detach "$wt" HEAD || exit 2
cd /repo
for f in configure aclocal.m4 config.h.in build-aux m4 $(git ls-files -o -i --exclude-standard | grep 'Makefile\.in$'); do
  mkdir -p "$wt/$(dirname $f)"; cp -a "$f" "$wt/$(dirname $f)/" 2>/dev/null
done
cd "$wt" || exit 2
export CCACHE_DIR=/verif/build/ccache-scratch CCACHE_BASEDIR="$wt" CCACHE_NOHASHDIR=1
./configure CC="ccache gcc" CXX="ccache g++" > configure.out 2>&1 || { echo "configure failed"; tail configure.out; exit 2; }
[ -n "$2" ] && exit 0
make -j16 > make.out 2>&1 || { echo "build failed"; tail make.out; exit 2; }
echo "scratch tree ready: $wt"
