#!/usr/bin/python3
# Development aid: re-execute the points of a finished discover log whose key is not an assertion (those keys come from
# symbolised stacks and depend on the version of crash_site()) and write build/discover-<id>.json with the merged result.
# usage: VERIF_BUILD=<separate build dir> tools/rekey.py C33 <discover-log.jsonl>
import sys, os, json
sys.path.insert(0, '/verif')
from vlib import common as C, fcheck as F, crashcheck as X
import importlib
prop, log = sys.argv[1], sys.argv[2]
chk = importlib.import_module('vlib.' + prop.lower())
ctx = F.Ctx(chk, 'thorough')
try:
    items = chk.make_items(ctx)
    plans = chk.make_plans(ctx, 'thorough', items)
    pkey = [json.dumps([p['item'], p['params']], sort_keys=True) for p in plans]
    index = dict((k, i) for i, k in enumerate(pkey))
    done = {}
    for l in open(log):
        r = json.loads(l)
        if 'p' in r:
            if r['p'] not in index:
                continue
            r['i'] = index[r['p']]
        done[r['i']] = r
    assert len(done) == len(plans), (len(done), len(plans))
    pat = sys.argv[3] if len(sys.argv) > 3 else None
    todo = [i for i, r in sorted(done.items()) if r['key'] and (any(p in r['key'] for p in pat.split('|')) if pat else not r['key'].startswith('abort:assert:'))]
    print('re-keying', len(todo), 'of', len(plans), 'points', flush=True)
    res = C.pmap(lambda i: chk.execute(ctx, items[plans[i]['item']], plans[i]['params']), todo, 2)
    changed = 0
    for i, r in zip(todo, res):
        new = {'i': i, 'p': pkey[i], 'outcome': r.outcome, 'key': r.key if r.verdict else None, 'details': r.verdict[1] if r.verdict else None,
               'stderr': r.info.get('stderr_tail') if r.verdict else None}
        if new['key'] != done[i]['key']:
            changed += 1
            print('  %s -> %s   (%s %s)' % (done[i]['key'], new['key'], plans[i]['item'], json.dumps(plans[i]['params'])[:120]), flush=True)
        done[i] = new
    sigs, outcomes = {}, {}
    for i in sorted(done):
        r = done[i]
        outcomes[r['outcome']] = outcomes.get(r['outcome'], 0) + 1
        if r['key']:
            e = sigs.setdefault(r['key'], {'count': 0, 'example': {'item': plans[i]['item'], 'params': plans[i]['params']}, 'details': r['details'], 'stderr': r['stderr']})
            e['count'] += 1
    out = {'runs': len(done), 'space': len(plans), 'signatures': sigs, 'outcomes': outcomes}
    json.dump(out, open('/verif/build/discover-%s.json' % prop, 'w'), indent=1, sort_keys=True)
    with open(log + '.rekeyed', 'w') as f:
        for i in sorted(done):
            f.write(json.dumps(done[i]) + '\n')
    print('changed', changed, 'keys; signatures now:')
    for k, v in sorted(sigs.items()):
        print('  %5d %s' % (v['count'], k))
finally:
    ctx.close()
