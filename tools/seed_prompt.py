#!/usr/bin/python3
# usage: seed_prompt.py <property id> <tag> [hint]   -> prints the brief given to an independent sub-agent.
# The brief contains the text of the property and the path of a scratch worktree; nothing from /verif.
import sys, json
pid, tag = sys.argv[1], sys.argv[2]
hint = sys.argv[3] if len(sys.argv) > 3 else ''
prop = [json.loads(l) for l in open('/verif/properties.jsonl') if json.loads(l)['id'] == pid][0]
wt, out = '/tmp/wt-' + tag, '/tmp/seed-' + tag
print(f"""You are helping to evaluate a verification effort for libabigail (the ABI Generic Analysis and Instrumentation Library: C++ library plus the tools abidw, abidiff, abilint, abicompat, abipkgdiff, abisym).  Your job is to play the adversary: plant ONE realistic bug.

Workspace rules (strict):
- Work ONLY inside the scratch git worktree {wt} (already configured and built in-tree with autotools: `make -j8` at its top rebuilds; the built tools are the libtool wrappers {wt}/tools/abidw, abidiff, ... and the library is {wt}/src/.libs/libabigail.so) and in the output directory {out}/ (create it).
- Do NOT read, list or modify /repo or /verif or any other /tmp/wt-* or /tmp/seed-* directory.  Do not use git commands that touch other worktrees.  Never commit; leave your change as an uncommitted modification of the worktree.
- No network.  gcc/g++/clang, make, python3, tar, rpm2cpio/cpio may be present; check before relying on one.

The property (this is all you are told about what is being verified):
  {prop['id']} - {prop['title']}
  {prop['statement']}
  (Code it is anchored in: {', '.join(prop['anchors']['files'])})

Task: make a small change to libabigail's own source ({wt}/src, {wt}/include, {wt}/tools) that BREAKS this property, such that
  1. everything still compiles (`make -j8`),
  2. the repository's existing test suite still gives the baseline result: `make -C {wt}/tests check -j8` (about 4-6 minutes).  In the baseline exactly these six tests already FAIL and may keep failing: runtestaltdwarf runtestannotate runtestdifffilter runtestdiffsuppr runtestreaddwarf runtesttypesstability.  Every other test must still PASS with your change,
  3. the bug looks like something a maintainer could plausibly introduce (a refactor, an "optimisation", a mis-merged fix, a dropped check, a wrong default, an off-by-one, a lock taken too late, an error path that forgets something) - not a deliberate `if (magic) abort()` and not a special case keyed on a magic input name,
  4. it needs something SPECIFIC to manifest - a particular thread interleaving, a fault or crash at a particular point, a multi-step sequence of operations, an unusual but legal input, or two cooperating sites that each look fine alone - rather than failing on the first ordinary use (ordinary use is what the existing tests already do).
{('Direction to explore for this one (a suggestion, use your judgement): ' + hint) if hint else ''}

Deliverables, all in {out}/:
  - patch.diff : `git -C {wt} diff -- src include tools > {out}/patch.diff` (source changes only; must apply with `git apply` to a clean checkout of the same commit).
  - demo.sh    : a self-contained bash script demonstrating the breakage.  It must locate the built tree through the environment variable TREE (default {wt}), e.g. "$TREE/tools/abidiff"; for programs linking the library use -I"$TREE/include" -L"$TREE/src/.libs" -Wl,-rpath,"$TREE/src/.libs" -labigail.  It may create inputs in a `mktemp -d` directory (C sources compiled with gcc -g, directories of shared objects, damaged files, small driver programs, LD_PRELOAD shims or sleeps in the *driver* to force an interleaving or a fault, ...), must clean up after itself, must finish within 10 minutes, and must exit 0 when the property holds in its scenario (i.e. on the unmodified tree) and exit NON-ZERO when the planted bug manifests (i.e. on the modified tree).  If the manifestation is schedule dependent, make the demo force it or repeat until it is reliable (>95%).
  - meta.json  : {{"property": "{prop['id']}", "summary": "...", "needs_to_manifest": "...", "files_touched": [...], "why_existing_tests_pass": "...", "how_demonstrated": "..."}}

Before you finish, verify all of this yourself and say what you ran:
  a. with the change applied and built: demo.sh exits non-zero;
  b. save the patch, `git -C {wt} checkout -- src include tools`, rebuild, demo.sh exits 0; then `git -C {wt} apply {out}/patch.diff` and rebuild so the worktree is left WITH the change applied and built (do not use git stash: the stash is shared with other worktrees);
  c. the test suite result with the change (list of FAIL lines).
Reply with a short report: the idea, the diff (inline), what it needs to manifest, and the results of a-c.  If after honest effort you cannot find a change that satisfies all the points, say so plainly rather than delivering one that violates them.""")
