#!/bin/bash
# usage: confirm_seeded.sh <scratch copy of /repo> <work dir with patch.diff and demo.sh> [notests]
# Confirms a seeded change independently: it applies, compiles, the demonstration fails with it and
# passes without it, and the repository's own test suite still gives the baseline result.
sa=$1; work=$2; notests=$3
export TREE=$sa
cd "$sa" || exit 2
git checkout -q -- src include tools || exit 2
echo "== demo WITHOUT the change"
make -j8 >/dev/null 2>&1
( cd "$work" && timeout 1200 bash ./demo.sh ) >$work/confirm_without.log 2>&1; rc0=$?
echo "   demo exit $rc0 (expected 0)"
echo "== apply"
git apply "$work/patch.diff" || { echo "patch does not apply"; exit 1; }
git diff --stat | tail -3
make -j8 >$work/confirm_build.log 2>&1 || { echo "does not compile"; tail -5 $work/confirm_build.log; git checkout -q -- .; exit 1; }
echo "== demo WITH the change"
( cd "$work" && timeout 1200 bash ./demo.sh ) >$work/confirm_with.log 2>&1; rc1=$?
echo "   demo exit $rc1 (expected non-zero)"
if [ -z "$notests" ]; then
  echo "== repository test suite WITH the change"
  timeout 3000 make -C tests check -j8 >$work/confirm_tests.log 2>&1
  pass=$(grep -c '^PASS:' $work/confirm_tests.log); fail=$(grep '^FAIL:' $work/confirm_tests.log | sort | tr '\n' ' ')
  echo "   PASS=$pass FAIL: $fail"
fi
git checkout -q -- .
make -j8 >/dev/null 2>&1
echo "RESULT demo_without=$rc0 demo_with=$rc1 tests_pass=$pass"
