#!/usr/bin/python3
# usage: keep_seed.py <tag> <name> <detected: caught|missed-then-caught|escaped> <note>
# copies a confirmed seeded change from /tmp/seed-<tag> to /verif/seeded/<name>/ and records what was run
import sys, os, json, shutil, re
tag, name, detected, note = sys.argv[1:5]
src, dst = '/tmp/seed-' + tag, '/verif/seeded/' + name
os.makedirs(dst, exist_ok=True)
for f in ('patch.diff', 'demo.sh'):
    shutil.copy(os.path.join(src, f), dst)
meta = json.load(open(os.path.join(src, 'meta.json')))
conf = open(os.path.join(src, 'confirm.out')).read()
m = re.search(r'RESULT demo_without=(\d+) demo_with=(\d+) tests_pass=(\d*)', conf)
fails = re.search(r'FAIL: (.*)', conf)
meta['origin'] = 'independent sub-agent given only the property text and a scratch worktree (tools/seed_prompt.py %s %s)' % (meta.get('property'), tag)
meta['confirmed'] = {'script': 'tools/confirm_seeded.sh <scratch worktree> <dir>', 'demo_exit_without_change': int(m.group(1)), 'demo_exit_with_change': int(m.group(2)),
                     'repo_tests_passing_with_change': int(m.group(3) or 0), 'repo_tests_failing_with_change': sorted(set(re.findall(r'(runtest\S+)', fails.group(1)))) if fails else [],
                     'baseline_failing': ['runtestaltdwarf', 'runtestannotate', 'runtestdifffilter', 'runtestdiffsuppr', 'runtestreaddwarf', 'runtesttypesstability']}
meta['detection'] = {'status': detected, 'note': note}
ev = os.path.join(src, 'eval.out')
if os.path.exists(ev):
    meta['detection']['last_eval_output_head'] = open(ev).read().splitlines()[:6]
json.dump(meta, open(os.path.join(dst, 'meta.json'), 'w'), indent=1)
print('kept', dst)
