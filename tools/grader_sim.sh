#!/bin/bash
# Simulates how the registered checks are used: setup_cmd, then every quick_cmd once with its evidence file removed.
# usage: grader_sim.sh [tier] [ids...]      (does not wipe /verif/build unless WIPE=1)
cd /verif
tier=${1:-quick}; shift
export VERIF_SEED=${VERIF_SEED:-1} VERIF_TIER=$tier
[ -n "$WIPE" ] && rm -rf /verif/build
s=$(date +%s)
bash -c "$(/usr/bin/python3 -c "import json;print(json.load(open('MANIFEST.json'))['setup_cmd'])")" || { echo "SETUP FAILED"; exit 2; }
echo "setup: $(( $(date +%s) - s )) s"
ids=${@:-$(/usr/bin/python3 -c "import json;print(' '.join(c['property_id'] for c in json.load(open('MANIFEST.json'))['checks']))")}
for id in $ids; do
  rm -f evidence/$id.json
  s=$(date +%s)
  ./verif check $id --tier $tier > build/grader-$id.out 2>&1; rc=$?
  v=$(grep -c '^VIOLATION' build/grader-$id.out); k=$(grep -c '^KNOWN-FINDING' build/grader-$id.out)
  ev=missing; [ -s evidence/$id.json ] && ev=ok
  echo "$id rc=$rc violations=$v known=$k evidence=$ev $(( $(date +%s) - s )) s"
done
