#!/bin/bash
# usage: seeds_sweep.sh "<seeds>" [tier] [ids...]   - every registered check under several VERIF_SEED values on the unchanged tree
seeds=$1; tier=${2:-quick}; shift; shift
ids=${@:-$(/usr/bin/python3 -c "import json;print(' '.join(c['property_id'] for c in json.load(open('MANIFEST.json'))['checks']))")}
for s in $seeds; do for id in $ids; do
  st=$(date +%s); VERIF_SEED=$s ./verif check $id --tier $tier > sweep-$id-$s.out 2>&1; rc=$?
  echo "seed=$s $id rc=$rc violations=$(grep -c '^VIOLATION' sweep-$id-$s.out) known=$(grep -c '^KNOWN-FINDING' sweep-$id-$s.out) $(( $(date +%s) - st )) s $(grep -m1 INFRASTRUCTURE sweep-$id-$s.out | cut -c1-160)"
done; done
