#!/usr/bin/python3
# Development aid: writes known_inputs/<id>.json.gz - the points of the closed space (fixture, command, fault) at which the
# unchanged tree does not end by exit(), with the site observed there.  Read-only at check time (see fcheck.run_check).
import sys, json, gzip, os, importlib
sys.path.insert(0, '/verif')
from vlib import crashcheck as X
prop, log = sys.argv[1], sys.argv[2]
chk = importlib.import_module('vlib.' + prop.lower())
items = {}
for name, body in X.load_fixtures(chk.FIXTURE_KIND).items():
    items[name] = {'name': name, 'body': body, 'space': list(chk.space(name, body))}
class Dummy: pass
ctx = Dummy(); ctx.memo = {}; ctx.seed = 1
plans = X.make_plans(chk, ctx, 'thorough', items)
n_intact = sum(1 for p in plans if p['params']['fault'] is None)
recs = [json.loads(l) for l in open(log)]
out = {}
if recs and 'p' in recs[0]:
    for r in recs:
        if r.get('key'):
            item, params = json.loads(r['p'])
            out['%s|%s|%s' % (item, params['cmd'], X.fkey(params['fault']) if params['fault'] else 'intact')] = r['key']
else:
    fault_plans = plans[n_intact:]
    assert len(recs) == len(fault_plans), (len(recs), len(fault_plans))
    for r in recs:
        if r.get('key'):
            p = fault_plans[r['i']]
            out['%s|%s|%s' % (p['item'], p['params']['cmd'], X.fkey(p['params']['fault']))] = r['key']
os.makedirs('/verif/known_inputs', exist_ok=True)
with gzip.open('/verif/known_inputs/%s.json.gz' % prop, 'wt') as f:
    json.dump(out, f, sort_keys=True)
print(prop, len(out), 'failing points', len(set(out.values())), 'sites')
