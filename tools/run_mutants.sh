#!/bin/bash
# Sensitivity catalogue: applies each /verif/mutants/*.patch to a scratch worktree of /repo and runs the quick check
# of the property named in the patch header; a mutant is "caught" when the check exits 1 with a VIOLATION line.
cd /verif
for p in mutants/${1:-*}.patch; do
  prop=$(sed -n 's/^# property: //p' "$p" | head -1)
  out=$(tools/eval_seeded.sh "$PWD/$p" "$prop" quick 2>&1)
  rc=$?
  if [ $rc -eq 1 ]; then verdict=CAUGHT; elif [ $rc -eq 0 ]; then verdict=ESCAPED; else verdict="ERROR($rc)"; fi
  # refactor-*.patch are behaviour-preserving changes: the property holds, the check must stay quiet
  case "$(basename $p)" in refactor-*) if [ $rc -eq 0 ]; then verdict="QUIET(as it must)"; elif [ $rc -eq 1 ]; then verdict="FALSE-ALARM"; fi;; esac
  echo "$verdict $(basename $p .patch) [$prop] $(echo "$out" | grep -m1 -o 'VIOLATION.*' | cut -c1-160)"
done
