#!/bin/bash
# usage: eval_seeded.sh <patch.diff> <property id> [tier]
# Runs one of the registered checks against a scratch worktree of /repo with a seeded change applied.
patch=$1; prop=$2; tier=${3:-quick}
mkdir -p /var/tmp/vscratch; wt=/var/tmp/vscratch/ev-$prop-$$      # not under /tmp: some runs get a private /tmp
git -C /repo worktree add -q "$wt" HEAD || exit 2
if ! git -C "$wt" apply "$patch"; then echo "patch does not apply to /repo HEAD"; git -C /repo worktree remove --force "$wt"; exit 2; fi
cd /verif
start=$(date +%s)
VERIF_REPO=$wt VERIF_BUILD=$wt/_vbuild timeout 7200 ./verif check $prop --tier $tier > /tmp/ev-$prop.out 2>&1
rc=$?
echo "check $prop ($tier) on seeded tree: exit $rc in $(( $(date +%s) - start )) s"
grep -E 'VIOLATION|KNOWN-FINDING|INFRASTRUCTURE|^C[0-9]+ ' /tmp/ev-$prop.out | head -12
for f in $(grep -o 'replay=[^ ]*' /tmp/ev-$prop.out | cut -d= -f2 | head -3); do
  test -f "$f" && { mkdir -p /tmp/ev-replays; cp "$f" /tmp/ev-replays/; /usr/bin/python3 -c "
import json,sys; j=json.load(open('$f')); print('   ', j.get('key', j.get('expect_class')), '|', str(j.get('details'))[:300])"; }
done
git -C /repo worktree remove --force "$wt"
exit $rc
