# Workload pool: small shared libraries compiled from /verif/pool/src (families
# with versions that differ by a known ABI edit) and fixtures copied from
# /repo/tests/data at commit time (/verif/pool/data).  The pool is workload,
# never the thing searched.
import os, subprocess, hashlib, json, fcntl
from . import common as C

SRC = os.path.join(C.VERIF, 'pool', 'src')
DATA = os.path.join(C.VERIF, 'pool', 'data')
OUT = os.path.join(C.VERIF, 'build', 'pool')   # always the framework's own build dir, even when VERIF_BUILD is overridden

# family -> (source, language, versions, extra flags)
FAMILIES = {
    'shapes': ('shapes.c', 'c', [0, 1, 2, 3], []),
    'fnptr': ('fnptr.c', 'c', [0, 1], []),
    'alias': ('alias.c', 'c', [0, 1], ['-Wl,--version-script=' + os.path.join(SRC, 'alias.map')]),
    'tiny': ('tiny.c', 'c', [0, 1], []),
    'cxx': ('cxx.cc', 'c++', [0, 1, 2], []),
    'mathx': ('mathx.c', 'c', [0, 1], []),
}
# what abidiff must say about (family, vA, vB): True = ABI change expected
CHANGED = {('tiny', 0, 1): False}


def _sh(cmd):
    p = subprocess.run(cmd, stdout=subprocess.PIPE, stderr=subprocess.STDOUT, universal_newlines=True)
    if p.returncode != 0:
        raise C.InfraError('pool build failed: %s\n%s' % (' '.join(cmd), p.stdout[-2000:]))


def ensure():
    """Compile the pool if needed; returns {name: path}."""
    os.makedirs(OUT, exist_ok=True)
    lock = open(os.path.join(OUT, '.lock'), 'w')
    fcntl.flock(lock, fcntl.LOCK_EX)
    try:
        h = hashlib.sha256(b'recipe-9')
        for f in sorted(os.listdir(SRC)):
            h.update(f.encode()); h.update(open(os.path.join(SRC, f), 'rb').read())
        stamp = os.path.join(OUT, 'stamp')
        want = h.hexdigest()
        libs = {}
        for fam, (src, lang, versions, extra) in FAMILIES.items():
            for v in versions:
                libs['%s_v%d' % (fam, v)] = os.path.join(OUT, 'lib%s_v%d.so' % (fam, v))
        for fam, (src, lang, versions, extra) in FAMILIES.items():
            for v in versions:
                libs['%s_v%d_nodbg' % (fam, v)] = os.path.join(OUT, 'lib%s_v%d_nodbg.so' % (fam, v))      # the same version built without debug info
        for v in (0, 1):
            libs['ties_v%d' % v] = os.path.join(OUT, 'libties_v%d.so' % v)     # same-named different types in two translation units, anonymous types
        for v in (0, 1):
            libs['tool_v%d' % v] = os.path.join(OUT, 'tool_v%d' % v)             # a position-independent executable exporting its symbols
            libs['tool_v%d_nodbg' % v] = os.path.join(OUT, 'tool_v%d_nodbg' % v)
            libs['tool_v%d_exec' % v] = os.path.join(OUT, 'tool_v%d_exec' % v)   # the same, linked as a non-PIE executable (ET_EXEC)
        for v in (0, 1):
            libs['ktree_v%d' % v] = os.path.join(OUT, 'ktree_v%d' % v)           # a directory: fake kernel image plus one module, for abidw --linux-tree
        for v in (0, 1):
            libs['emptymod_v%d' % v] = os.path.join(OUT, 'emptymod_v%d.ko' % v)   # a kernel module with debug info that exports nothing
        libs['twice_v0'] = os.path.join(OUT, 'libtwice_v0.so')                 # one source compiled twice with different -D flags
        libs['shapes_clang_v0'] = os.path.join(OUT, 'libshapes_clang_v0.so')
        libs['cxx_clang_v0'] = os.path.join(OUT, 'libcxx_clang_v0.so')
        libs['fnptr_nodebug_v0'] = os.path.join(OUT, 'libfnptr_nodebug_v0.so')
        libs['app'] = os.path.join(OUT, 'app')
        libs['app_nodeps'] = os.path.join(OUT, 'app_nodeps.so')      # an "application" with no undefined symbol at all
        if os.path.exists(stamp) and open(stamp).read() == want and all(os.path.exists(p) for p in libs.values()) \
                and all(os.path.exists(os.path.join(libs['ktree_v%d' % v], 'vmlinux')) for v in (0, 1)):
            return _ensure_split(libs, want)
        for fam, (src, lang, versions, extra) in FAMILIES.items():
            cc = 'gcc' if lang == 'c' else 'g++'
            for v in versions:
                _sh([cc, '-g', '-O0', '-fPIC', '-shared', '-DV=%d' % v, '-Wl,-soname,lib%s.so.1' % fam,
                     os.path.join(SRC, src), '-o', libs['%s_v%d' % (fam, v)]] + extra)
            for v in versions:
                _sh([cc, '-O0', '-fPIC', '-shared', '-DV=%d' % v, '-Wl,-soname,lib%s.so.1' % fam, os.path.join(SRC, src), '-o', libs['%s_v%d_nodbg' % (fam, v)]] + extra)
        for v in (0, 1):
            for tu in ('ties_a', 'ties_b'):
                _sh(['gcc', '-g', '-O0', '-fPIC', '-DV=%d' % v, '-c', os.path.join(SRC, tu + '.c'), '-o', os.path.join(OUT, '%s_v%d.o' % (tu, v))])
            _sh(['gcc', '-shared', '-Wl,-soname,libties.so.1', os.path.join(OUT, 'ties_a_v%d.o' % v), os.path.join(OUT, 'ties_b_v%d.o' % v), '-o', libs['ties_v%d' % v]])
        for v in (0, 1):
            _sh(['gcc', '-g', '-O0', '-fPIE', '-pie', '-rdynamic', '-DV=%d' % v, os.path.join(SRC, 'tool.c'), '-o', libs['tool_v%d' % v]])
            _sh(['gcc', '-O0', '-fPIE', '-pie', '-rdynamic', '-DV=%d' % v, os.path.join(SRC, 'tool.c'), '-o', libs['tool_v%d_nodbg' % v]])
            _sh(['gcc', '-g', '-O0', '-fno-pie', '-no-pie', '-rdynamic', '-DV=%d' % v, os.path.join(SRC, 'tool.c'), '-o', libs['tool_v%d_exec' % v]])
        for v in (0, 1):
            os.makedirs(os.path.join(libs['ktree_v%d' % v], 'modules'), exist_ok=True)
            _sh(['gcc', '-g', '-O0', '-nostdlib', '-static', '-fno-pie', '-no-pie', '-DV=%d' % v, os.path.join(SRC, 'fakekernel.c'), '-o', os.path.join(libs['ktree_v%d' % v], 'vmlinux')])
            _sh(['gcc', '-g', '-O0', '-DV=%d' % v, '-c', os.path.join(SRC, 'fakemod.c'), '-o', os.path.join(libs['ktree_v%d' % v], 'modules', 'fakemod.ko')])
        for v in (0, 1):
            _sh(['gcc', '-g', '-O0', '-DNOEXPORT', '-DV=%d' % v, '-c', os.path.join(SRC, 'fakemod.c'), '-o', libs['emptymod_v%d' % v]])
        for var in (1, 2):
            _sh(['gcc', '-g', '-O0', '-fPIC', '-DVARIANT=%d' % var, '-c', os.path.join(SRC, 'twice.c'), '-o', os.path.join(OUT, 'twice_%d.o' % var)])
        _sh(['gcc', '-shared', '-Wl,-soname,libtwice.so.1', os.path.join(OUT, 'twice_1.o'), os.path.join(OUT, 'twice_2.o'), '-o', libs['twice_v0']])
        _sh(['clang', '-g', '-O0', '-fPIC', '-shared', '-DV=0', '-Wl,-soname,libshapes.so.1', os.path.join(SRC, 'shapes.c'), '-o', libs['shapes_clang_v0']])
        _sh(['clang++', '-g', '-O0', '-fPIC', '-shared', '-DV=0', '-Wl,-soname,libcxx.so.1', os.path.join(SRC, 'cxx.cc'), '-o', libs['cxx_clang_v0']])
        _sh(['gcc', '-O1', '-fPIC', '-shared', '-DV=0', os.path.join(SRC, 'fnptr.c'), '-o', libs['fnptr_nodebug_v0']])
        _sh(['gcc', '-g', '-O0', os.path.join(SRC, 'app.c'), '-o', libs['app'], '-L' + OUT, '-l:libshapes_v0.so'])
        _sh(['gcc', '-g', '-O0', '-fPIC', '-shared', '-nostdlib', os.path.join(SRC, 'app_nodeps.c'), '-o', libs['app_nodeps']])
        open(stamp, 'w').write(want)
        return _ensure_split(libs, want)
    finally:
        fcntl.flock(lock, fcntl.LOCK_UN)
        lock.close()


def split_names():
    return ['%s_v%d' % (fam, v) for fam, (src, lang, versions, extra) in FAMILIES.items() for v in versions] + ['tool_v0', 'tool_v1', 'tool_v0_exec', 'tool_v1_exec']


def _ensure_split(libs, want):
    """Split debug info, the way distributions ship it: <name>_strip is the binary without its .debug* sections (with a
    .gnu_debuglink), <name>_dbgroot a directory laid out as a debug-info package: usr/lib/debug/<name>.debug plus the
    usr/lib/debug/.build-id/xx/yyyy.debug link to it.  Called with the pool lock held."""
    top = os.path.join(OUT, 'split')
    stamp = os.path.join(top, 'stamp')
    names = split_names()
    for n in names:
        libs[n + '_strip'] = os.path.join(top, n, 'bin')
        libs[n + '_dbgroot'] = os.path.join(top, n, 'debug')
    if os.path.exists(stamp) and open(stamp).read() == want + ' split-1' and all(os.path.exists(libs[n + '_strip']) for n in names):
        return libs
    import shutil
    shutil.rmtree(top, ignore_errors=True)
    for n in names:
        dbgdir = os.path.join(libs[n + '_dbgroot'], 'usr', 'lib', 'debug')
        os.makedirs(dbgdir)
        dbg = os.path.join(dbgdir, n + '.debug')
        _sh(['objcopy', '--only-keep-debug', libs[n], dbg])
        p = subprocess.run(['objcopy', '--strip-debug', '--add-gnu-debuglink=' + n + '.debug', libs[n], libs[n + '_strip']], cwd=dbgdir,
                           stdout=subprocess.PIPE, stderr=subprocess.STDOUT, universal_newlines=True)
        if p.returncode != 0:
            raise C.InfraError('pool build failed: objcopy --strip-debug %s\n%s' % (n, p.stdout[-2000:]))
        note = subprocess.run(['readelf', '-n', libs[n + '_strip']], stdout=subprocess.PIPE, universal_newlines=True).stdout
        ids = [l.split()[-1] for l in note.splitlines() if 'Build ID:' in l]
        if not ids:
            raise C.InfraError('pool build failed: %s has no build id' % n)
        os.makedirs(os.path.join(dbgdir, '.build-id', ids[0][:2]))
        os.symlink('../../' + n + '.debug', os.path.join(dbgdir, '.build-id', ids[0][:2], ids[0][2:] + '.debug'))
    open(stamp, 'w').write(want + ' split-1')
    return libs


def fixtures(kind):
    """Committed fixtures: kind in {'elf','abixml','suppr'} -> sorted list of paths."""
    d = os.path.join(DATA, kind)
    if not os.path.isdir(d):
        return []
    return [os.path.join(d, f) for f in sorted(os.listdir(d))]
