# C33 - reading any ABIXML input is memory-safe and never aborts (decided part:
# the storage-fault closure of valid documents).
import os
from . import common as C, fcheck as F, crashcheck as X

PROP, NUM = 'C33', 33
LEVEL = 'fault_enumeration'
VARIANT = 'asan'
TOOLS = [('asan', 'abidiff'), ('asan', 'abilint')]
JOBS = 2
RERUNS = {'quick': 30, 'thorough': 200}
MAX_HANDLE = 40
FIXTURE_KIND = 'abixml'
QUICK_N = 4000
CPU_LIMIT = 10
KNOWN_INPUTS = True      # findings are listed by site (known_findings.json) and by input (known_inputs/)
DEP_EXEMPT = False
LEGAL_READS = ('abidiff-dmg-intact', 'abilint')
ASSUMPTIONS = ['decided part only: what a torn write, lost or misdirected sector, bit rot, short read or truncation can turn a valid document into; grammar-aware mutation is input generation and is not attempted',
               'single fault per run from a closed, enumerated space, so that every signature on the unchanged tree is listed in known_findings.json and any other signature is new']


def space(name, body):
    return X.text_space(len(body), thin=4 if len(body) > 9000 else 2 if len(body) > 5000 else 1)


weight = X.text_weight


def commands(name):
    if name.startswith('tu-'):
        return ['abidiff-dmg-intact', 'abilint', 'abilint-stdin-tu']
    return ['abidiff-dmg-intact', 'abilint', 'abilint-stdin']


def applies(cmd, fi, f):
    return cmd == 'abidiff-dmg-intact' or (cmd == 'abilint' and fi % 3 == 0) or (cmd in ('abilint-stdin', 'abilint-stdin-tu') and fi % 6 == 1)


def command(ctx, it, cmd, dmg):
    if cmd == 'abidiff-dmg-intact':
        return 'abidiff', ['abidiff', dmg, it['path']], None
    if cmd == 'abilint':
        return 'abilint', ['abilint', '--noout', dmg], None
    if cmd == 'abilint-stdin-tu':
        return 'abilint', ['abilint', '--stdin', '--tu'], dmg
    return 'abilint', ['abilint', '--noout', '--stdin'], dmg


make_items = lambda ctx, only=None: X.make_items(_me(), ctx, only)
make_plans = lambda ctx, tier, items: X.make_plans(_me(), ctx, tier, items)
execute = lambda ctx, it, p: X.execute(_me(), ctx, it, p)
describe = lambda ctx, cov, items, plans, results: X.describe(_me(), ctx, cov, items, plans, results)


def _me():
    return __import__('vlib.c33', fromlist=['x'])


def check(tier):
    return F.run_check(_me(), tier)


def replay_file(path, quiet=False):
    return F.replay_file(_me(), path, quiet)
