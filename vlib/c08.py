# C08 (the lattice part) - the exit status of abidiff, abicompat and abipkgdiff
# is a combination of the documented bits only; the incompatible-change bit
# never appears without the change bit, and the usage-error bit never appears
# without the error bit.  A global invariant monitored on tool exits reached
# through the same simulated histories as C09 (damaged and unreadable inputs),
# C30/C31 (package pairs under seeded schedules) plus a table of malformed
# command lines and option sets.
import os, json
from . import common as C, fcheck as F, pkgsim as K, c09, c36

PROP = 'C08'
LEVEL = 'other'
VARIANT = 'plain'
TOOLS = [('plain', 'abidiff'), ('plain', 'abicompat'), ('plain', 'abipkgdiff'), ('plain', 'abidw')]
JOBS = 3
RERUNS = {'quick': 30, 'thorough': 120}
ASSUMPTIONS = ['only the bit lattice is decided; the agreement between the report summary and the change bit is a pure function of the two inputs and is not claimed',
               'a run that dies by signal is not an exit status and is not judged here']
ERROR, USAGE, CHANGE, INCOMPAT = 1, 2, 4, 8

ABIDIFF_OPTS = [[], ['--leaf-changes-only'], ['--stat'], ['--deleted-fns'], ['--added-fns', '--changed-fns'], ['--harmless'], ['--redundant'], ['--no-added-syms'],
                ['--no-linkage-name', '--no-unreferenced-symbols'], ['--impacted-interfaces'], ['--dump-diff-tree'], ['--no-default-suppression'], ['--drop-private-types'],
                ['--non-reachable-types'], ['--exported-interfaces-only']]
SINGLE_OPTS = ['--leaf-changes-only', '--harmless', '--redundant', '--no-added-syms', '--no-linkage-name', '--no-unreferenced-symbols', '--impacted-interfaces',
               '--no-default-suppression', '--drop-private-types', '--non-reachable-types', '--ignore-soname', '--show-hex', '--no-linux-kernel-mode', '--no-show-locs', '--show-bytes', '--no-corpus-path',
               '--no-architecture', '--no-show-relative-offset-changes', '--deleted-vars', '--added-vars', '--no-harmful', '--no-redundant']
BAD_CMDLINES = {
    'abidiff': [['--no-such-option'], [], ['@A@'], ['--suppressions'], ['--suppressions', '/nonexistent/file', '@A@', '@B@'], ['@A@', '/nonexistent/lib.so'], ['/nonexistent/a', '/nonexistent/b'],
                ['--headers-dir1'], ['--debug-info-dir1', '/nonexistent', '@A@', '@B@'], ['@A@', '@B@', '@A@'], ['--version'], ['--help'], ['--kmi-whitelist', '/nonexistent', '@A@', '@B@'],
                ['--drop', '(', '@A@', '@B@'], ['--keep-fn', '[', '@A@', '@B@'], ['/dev/null', '@B@'], ['@A@', '/'], ['--fail-no-debug-info', '@N@', '@N@']],
    'abicompat': [['--no-such-option'], [], ['@APP@'], ['@APP@', '@A@'], ['@APP@', '/nonexistent', '@B@'], ['/nonexistent', '@A@', '@B@'], ['--weak-mode', '@APP@', '@A@'],
                  ['--list-undefined-symbols', '@APP@'], ['--suppressions', '/nonexistent', '@APP@', '@A@', '@B@'], ['@A@', '@A@', '@B@'], ['--version'], ['--help'],
                  ['--redundant', '@APP@', '@A@', '@B@'], ['--show-base-names', '@APP@', '@A@', '@B@'], ['@APP@', '/dev/null', '@B@'], ['--fail-no-debug-info', '@APP@', '@N@', '@N@']],
    'abipkgdiff': [['--no-such-option'], [], ['@P1@'], ['@P1@', '/nonexistent'], ['/nonexistent', '@P2@'], ['@A@', '@B@'], ['--d1'], ['--suppressions', '/nonexistent', '@P1@', '@P2@'],
                   ['--version'], ['--help'], ['--self-check', '@P1@'], ['--no-parallel', '@P1@', '@P2@'], ['--dso-only', '@P1@', '@P2@'], ['--fail-no-dbg', '@P1@', '@P2@'], ['@P1@', '@P2@', '@P1@'],
                   ['--keep-tmp-files', '@P1@', '@P2@'], ['/dev/null', '@P2@']]}


VALUE_OPTS = ('dir', 'pkg', 'file', 'suppr', 'whitelist', 'keep', 'drop', '--d1', '--d2', '--wp', '--hd', '--hf', 'devel', '--appd', '--libd', 'path', 'style')


def rng_takes_value(opt):
    return any(v in opt for v in VALUE_OPTS)


def make_items(ctx, only=None):
    # one item per tool; the item carries the shared workload
    libs = ctx.libs
    root = os.path.join(ctx.rundir, 'wl')
    os.makedirs(root, exist_ok=True)
    wls = []
    for i in range(8):
        wl = K.gen_workload(C.Prng(C.mix_seed(ctx.seed, 8, 7, i)), big=(i == 5), swarm=True, splitdbg=True)
        if i == 0:      # a removed binary while every matched pair compares clean: the status comes from the removal alone
            wl = {'files': [{'path': 'libtiny.so', 'v1': 'tiny_v0', 'v2': 'tiny_v1'}, {'path': 'libmathx.so', 'v1': 'mathx_v0', 'v2': None},
                            {'path': 'libalias.so', 'v1': 'alias_v1', 'v2': 'alias_v1'}], 'format': 'dir', 'abignore': 'none', 'options': ['--no-default-suppression']}
        if i == 2:      # a pair that ends with an error next to a clean pair and nothing else
            wl = {'files': [{'path': 'libtiny.so', 'v1': 'tiny_v0', 'v2': 'tiny_v1_nodbg'}, {'path': 'libalias.so', 'v1': 'alias_v1', 'v2': 'alias_v1'}],
                  'format': 'dir', 'abignore': 'none', 'options': ['--no-default-suppression', '--fail-no-dbg']}
        if i in (3, 4):
            wl['splitdbg'] = True       # binaries without .debug* sections plus debug-info packages (--d1/--d2); w3 is an archive pair
        wl.pop('self_check', None)      # --self-check writes into the package directory, which the runs of this check share
        wl['format'] = 'dir' if i % 3 else 'tar'
        d = os.path.join(root, 'w%d' % i)
        os.makedirs(d)
        wls.append((wl,) + K.materialise(wl, libs, d))
    docs = {}
    for n in ('shapes_v0', 'shapes_v2', 'alias_v1', 'tiny_v0'):
        t, _ = c36.template('abidw', 'stdout', libs[n])
        t.pop('simf')
        o = ctx.run('abidw', t)
        docs[n] = o.stdout or b''
        p = os.path.join(root, n + '.abi')
        open(p, 'wb').write(docs[n])
        docs[n + ':path'] = p
    # corpus-group documents (what abidw --linux-tree writes for the stand-in kernel trees): abidiff has a separate branch for them
    for n in ('ktree_v0', 'ktree_v1'):
        o = ctx.run('abidw', {'argv': ['abidw', '--linux-tree', libs[n]]})
        if o.klass != ('exit', 0) or b'abi-corpus-group' not in (o.stdout or b''):
            raise C.InfraError('could not produce the corpus-group document for %s' % n)
        p = os.path.join(root, n + '.group.abi')
        open(p, 'wb').write(o.stdout)
        docs[n + ':path'] = p
    # every option each tool documents, read from its own --help: used for pairs of options on otherwise valid command lines
    # (conflicting pairs such as --redundant --no-redundant, duplicates, options that want a value and do not get a sensible one)
    helpopts = {}
    for tool in ('abidiff', 'abicompat', 'abipkgdiff'):
        o = ctx.run(tool, {'argv': [tool, '--help']})
        import re
        txt = (o.stdout or b'').decode('utf-8', 'replace') + (o.stderr or b'').decode('utf-8', 'replace')
        helpopts[tool] = sorted(set(re.findall(r'(?<![\w-])(--[a-z][a-z0-9-]+)', txt)) - set(['--help', '--version']))
        if len(helpopts[tool]) < 8:
            raise C.InfraError('could not read the option list of %s from its --help output' % tool)
    shared = {'wls': wls, 'docs': docs, 'helpopts': helpopts}
    items = {}
    for tool in ('abidiff', 'abicompat', 'abipkgdiff'):
        if only and tool != only:
            continue
        items[tool] = dict(shared, name=tool)
    return items


def make_plans(ctx, tier, items):
    n = {'quick': 2000, 'thorough': 20000}[tier]
    fams = sorted(K.FAMS)
    plans = []
    for i in range(n):
        rng = C.Prng(C.mix_seed(ctx.seed, 8, 0, i))
        tool = rng.choice(['abidiff', 'abidiff', 'abicompat', 'abipkgdiff'])
        if tool not in items:
            continue
        r = rng.below(100)
        p = {'tool': tool}
        if r < 12:
            p.update(kind='bad-cmdline', idx=rng.below(len(BAD_CMDLINES[tool])))
        elif r < 25:
            # two of the tool's own options on a command line with valid operands; pairs X / no-X are preferred
            opts = items[tool]['helpopts'][tool]
            a = rng.choice(opts)
            twin = ('--no-' + a[2:]) if not a.startswith('--no-') else ('--' + a[5:])
            b = twin if twin in opts and rng.chance(2, 3) else rng.choice(opts)
            p.update(kind='option-pair', a=a, b=b, order=rng.below(2), value=rng.choice(['/nonexistent', '@A@', '.', '']))
        elif tool == 'abidiff':
            fam = rng.choice(fams); vs = K.FAMS[fam]
            p.update(a='%s_v%d' % (fam, rng.choice(vs)), b='%s_v%d' % (fam, rng.choice(vs)), opts=rng.choice(ABIDIFF_OPTS))
            if rng.chance(1, 2):
                # binaries without debug info (symbol-only comparison) on one or both sides, and a random subset of single options
                nd = rng.below(4)
                if nd in (0, 2, 3):
                    p['a'] += '_nodbg'
                if nd in (1, 2, 3):
                    p['b'] += '_nodbg'
                p['opts'] = p['opts'] + [o for o in SINGLE_OPTS if rng.chance(1, 6) and o not in p['opts']]
            if r < 35:
                # two corpus groups, in either direction (a module function is removed in one of them)
                p['kind'] = 'group-pair'
                p['a'], p['b'] = rng.choice([('ktree_v0', 'ktree_v1'), ('ktree_v1', 'ktree_v0'), ('ktree_v1', 'ktree_v0'), ('ktree_v1', 'ktree_v1')])
                p['opts'] = [o for o in p['opts'] if o not in ('--dump-diff-tree',)]
            elif r < 65:
                p['kind'] = 'pair'
            else:
                p['kind'] = 'damaged'
                p['doc'] = rng.choice(['shapes_v0', 'shapes_v2', 'alias_v1', 'tiny_v0'])
                p['fault'] = {'kind': rng.choice(['truncate', 'bitflip', 'zero-run', 'ff-run', 'misdirected']), 'offset': rng.below(6000), 'bit': rng.below(8),
                              'len': rng.choice([1, 8, 64, 512]), 'src': rng.below(5000)}
                p['pos'] = rng.below(2)
                p['other'] = rng.choice(['same-doc', 'elf', 'other-doc'])
        elif tool == 'abicompat':
            vs = K.FAMS['shapes']
            p.update(kind='compat', a='shapes_v%d' % rng.choice(vs), b='shapes_v%d' % rng.choice(vs), weak=rng.chance(1, 5),
                     opts=rng.choice([[], ['--redundant'], ['--show-base-names'], ['--no-show-locs']]), damaged=rng.chance(1, 4),
                     fault={'kind': rng.choice(['truncate', 'bitflip', 'zero-run']), 'offset': rng.below(6000), 'bit': rng.below(8), 'len': 64, 'src': 0})
        else:
            p.update(kind='pkg', wl=rng.below(8), simt=K.gen_simt(rng, 6), parallel=rng.chance(4, 5))
        plans.append({'item': tool, 'params': p})
    return plans


def execute(ctx, it, p):
    libs = ctx.libs
    tool = p['tool']
    files = {}
    sub = {'@A@': libs['shapes_v0'], '@B@': libs['shapes_v1'], '@APP@': libs['app'], '@N@': libs['fnptr_nodebug_v0'], '@P1@': it['wls'][1][1], '@P2@': it['wls'][1][2]}
    spec = {}
    if p['kind'] == 'bad-cmdline':
        argv = [tool] + [sub.get(a, a) for a in BAD_CMDLINES[tool][p['idx']]]
        label = 'bad-cmdline:%d' % p['idx']
    elif p['kind'] == 'option-pair':
        operands = {'abidiff': ['@A@', '@B@'], 'abicompat': ['@APP@', '@A@', '@B@'], 'abipkgdiff': ['@P1@', '@P2@']}[tool]
        pair = [p['a'], p['b']] if p['order'] == 0 else [p['b'], p['a']]
        args = []
        for o in pair:
            args.append(o)
            if p['value'] and rng_takes_value(o):
                args.append(p['value'])
        argv = [tool] + [sub.get(a, a) for a in args + operands]
        label = 'option-pair'
    elif p['kind'] == 'pair':
        argv = ['abidiff'] + p['opts'] + [libs[p['a']], libs[p['b']]]
        label = 'pair:' + ' '.join(p['opts'])
    elif p['kind'] == 'group-pair':
        argv = ['abidiff'] + p['opts'] + [it['docs'][p['a'] + ':path'], it['docs'][p['b'] + ':path']]
        label = 'group-pair:' + ' '.join(p['opts'])
    elif p['kind'] == 'damaged':
        img = c09.damage(it['docs'][p['doc']], p['fault'])
        files['dmg.abi'] = img
        other = {'same-doc': it['docs'][p['doc'] + ':path'], 'elf': libs[p['doc']], 'other-doc': it['docs']['tiny_v0:path']}[p['other']]
        pair = ['@RUN@/dmg.abi', other]
        if p['pos']:
            pair.reverse()
        argv = ['abidiff'] + p['opts'] + pair
        label = 'damaged:' + p['fault']['kind']
    elif p['kind'] == 'compat':
        lib2 = libs[p['b']]
        if p['damaged']:
            files['dmg.abi'] = c09.damage(it['docs']['shapes_v2'], p['fault'])
            lib2 = '@RUN@/dmg.abi'
        argv = ['abicompat'] + p['opts'] + (['--weak-mode', libs['app'], libs[p['a']]] if p['weak'] else [libs['app'], libs[p['a']], lib2])
        label = 'compat' + (':damaged' if p['damaged'] else '') + (':weak' if p['weak'] else '')
    else:
        wl, p1, p2 = it['wls'][p['wl']]
        spec = K.spec(wl, p1, p2, p['simt'], parallel=p['parallel'])
        argv = spec['argv']
        label = 'pkg:%s' % wl['format']

    def prepare(run):
        for n, b in files.items():
            open(os.path.join(run, n), 'wb').write(b)

    t = dict(spec, argv=argv)
    o = ctx.run(tool, t, prepare=prepare)
    verdict, key = None, None
    st = o.exit
    if o.klass[0] == 'exit':
        bad = None
        if st & ~(ERROR | USAGE | CHANGE | INCOMPAT):
            bad = 'status %d has bits outside the documented set {1,2,4,8}' % st
        elif st & INCOMPAT and not st & CHANGE:
            bad = 'status %d has the incompatible-change bit without the change bit' % st
        elif st & USAGE and not st & ERROR:
            bad = 'status %d has the usage-error bit without the error bit' % st
        if bad:
            verdict = ('status-lattice', '%s: %s (%s)' % (tool, bad, ' '.join(argv)[-200:]))
            key = 'status-lattice:%s:%d' % (tool, st)
    sched = o.res.get('simt', {})
    return F.Result(verdict, key, [label.split(':')[0]], [(tool, label, st if o.klass[0] == 'exit' else o.status_key())], digest=(o.exit, o.signal, sched.get('log_hash')),
                    info={'argv_tail': [os.path.basename(a) for a in argv[1:]][-6:], 'status': st}, steps=sched.get('steps', 0), outcome='%s:%s' % (tool, o.status_key()))


def describe(ctx, cov, items, plans, results):
    per = {}
    for r in results:
        per[r.outcome] = per.get(r.outcome, 0) + 1
    cov['explanation'] = ('Invariant monitor, not a search for a particular failure: %d tool exits of abidiff, abicompat and abipkgdiff were observed in seeded simulated histories '
                          '(damaged/truncated ABIXML in either argument position, all pool library pairs under 15 option sets, abicompat with damaged and weak-mode inputs, package pairs '
                          'under seeded SIM-T schedules, and a table of %d malformed command lines) and every status was checked against the bit lattice: subset of {1,2,4,8}, 8 implies 4, 2 implies 1. '
                          'Statuses seen per tool: %s' % (len(results), sum(len(v) for v in BAD_CMDLINES.values()), json.dumps(per, sort_keys=True)))
    cov['rule'] = 'distinct = distinct (tool, scenario label, exit status)'
    cov['statuses_seen'] = per
    cov['real_vs_stub'] = {'real': ['tools/abidiff.cc, tools/abicompat.cc, tools/abipkgdiff.cc main()'], 'stub': ['thread schedule for abipkgdiff (SIM-T)', 'stored images of damaged documents']}


def check(tier):
    return F.run_check(__import__('vlib.c08', fromlist=['x']), tier)


def replay_file(path, quiet=False):
    return F.replay_file(__import__('vlib.c08', fromlist=['x']), path, quiet)
