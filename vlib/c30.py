# C30 - abipkgdiff's verdict covers every binary in the packages.  The verdict
# is assembled from per-task results by the completion notifier under a lock:
# a conservation property over the task history.  Same simulated runs as C31
# (real abipkgdiff main() under SIM-T), checked against a small executable
# reference model: OR over matched pairs of abidiff's status on that pair,
# plus the removed-binary bits; sections and removed/added lists must match.
import os, json
from . import common as C, fcheck as F, pkgsim as K, c31

PROP = 'C30'
LEVEL = 'exploration'
VARIANT = 'plain'
TOOLS = [('plain', 'abipkgdiff'), ('plain', 'abidiff')]
JOBS = 3
RERUNS = {'quick': 20, 'thorough': 100}
ASSUMPTIONS = ['workloads stay where binary matching is unambiguous (flat or mirrored directory trees, one library of a family per directory, same common ELF-directory prefix in both packages - abipkgdiff keys binaries by path minus that prefix)',
               'abidiff on the same pair with the same option translation (--no-default-suppression, --redundant when given) is the per-pair oracle']
NWL = {'quick': 60, 'thorough': 600}
NSCHED = {'quick': 6, 'thorough': 12}


def pair_status(ctx):
    def f(v1, v2, options):
        key = ('pair', v1, v2, '--redundant' in options)
        if key not in ctx.memo:
            argv = ['abidiff', '--no-default-suppression'] + (['--redundant'] if '--redundant' in options else [])
            # a binary shipped without its .debug* sections comes with the debug-info tree of its package (abipkgdiff --d1/--d2)
            for v, opt in ((v1, '--debug-info-dir1'), (v2, '--debug-info-dir2')):
                if v.endswith('_strip'):
                    argv += [opt, os.path.join(ctx.libs[v[:-6] + '_dbgroot'], 'usr', 'lib', 'debug')]
            argv += [ctx.libs[v1], ctx.libs[v2]]
            o = ctx.run('abidiff', {'argv': argv})
            if o.klass[0] != 'exit':
                raise C.InfraError('abidiff died on pool pair %s %s: %s' % (v1, v2, o.klass))
            ctx.memo[key] = o.exit
            ctx.memo[('report',) + key[1:]] = K.norm_report(o.stdout, indent=True)
        return ctx.memo[key]
    return f


def pair_report(ctx, v1, v2, options):
    return ctx.memo.get(('report', v1, v2, '--redundant' in options))


def make_items(ctx, only=None):
    items = {}
    ps = pair_status(ctx)
    # the hand-made workloads wl000-wl003 stand in for generated ones (as they always did); later ones (wlx..) come on top,
    # so that no generated workload is lost
    for i in list(range(NWL[ctx.tier])) + [1004, 1005, 1007, 1008]:
        name = 'wl%03d' % i if i < 1000 else 'wlx%02d' % (i - 1000)
        if only and name != only:
            continue
        rng = C.Prng(C.mix_seed(ctx.seed, 30, 7, i))
        wl = K.gen_workload(rng, big=(i % 7 == 6), same_prefix=True, splitdbg=True, deb=True)
        if i == 0:
            wl = {'files': [{'path': 'libtiny.so', 'v1': 'tiny_v0', 'v2': 'tiny_v1'}, {'path': 'libmathx.so', 'v1': 'mathx_v0', 'v2': None}],
                  'format': 'dir', 'abignore': 'none', 'options': ['--no-default-suppression']}       # removed binary, every other pair clean
        if i == 1:
            wl = {'files': [{'path': 'libtiny.so', 'v1': 'tiny_v0', 'v2': 'tiny_v1'}, {'path': 'lib/libshapes.so', 'v1': 'shapes_v0', 'v2': 'shapes_v2'},
                            {'path': 'lib/libcxx.so', 'v1': 'cxx_v0', 'v2': 'cxx_v0'}, {'path': 'libfnptr.so', 'v1': 'fnptr_v0', 'v2': 'fnptr_v0'}],
                  'format': 'dir', 'abignore': 'none', 'options': ['--no-default-suppression']}       # one changed pair among clean ones
        if i == 2:
            wl = {'files': [{'path': 'lib/libtiny.so', 'v1': 'tiny_v0', 'v2': 'tiny_v0'}, {'path': 'lib/tool', 'v1': 'tool_v0', 'v2': None},
                            {'path': 'lib/libalias.so', 'v1': 'alias_v1', 'v2': 'alias_v1'}],
                  'format': 'dir', 'abignore': 'none', 'options': ['--no-default-suppression']}       # a removed executable, every remaining pair clean
        if i == 3:
            wl = {'files': [{'path': 'libtiny.so', 'v1': 'tiny_v0', 'v2': 'tiny_v0'}, {'path': 'tool', 'v1': 'tool_v0_exec', 'v2': None},
                            {'path': 'libmathx.so', 'v1': None, 'v2': 'mathx_v1'}],
                  'format': 'tar', 'abignore': 'none', 'options': ['--no-default-suppression', '--no-added-binaries']}   # removed ET_EXEC executable, an added library, archive
        if i == 1004:
            wl = {'files': [{'path': 'lib/libshapes.so', 'v1': 'shapes_v1', 'v2': 'shapes_v2'}, {'path': 'lib/libcxx.so', 'v1': 'cxx_v1', 'v2': 'cxx_v1'},
                            {'path': 'bin/tool', 'v1': 'tool_v0', 'v2': 'tool_v0'}],
                  'format': 'dir', 'abignore': 'none', 'options': ['--no-default-suppression'], 'splitdbg': True}      # split debug info: a change only the debug info shows
        if i == 1005:
            wl = {'files': [{'path': 'libfnptr.so', 'v1': 'fnptr_v0', 'v2': 'fnptr_v1'}, {'path': 'libmathx.so', 'v1': 'mathx_v0', 'v2': None},
                            {'path': 'libtiny.so', 'v1': 'tiny_v0_nodbg', 'v2': 'tiny_v1'}],
                  'format': 'tar.gz', 'abignore': 'none', 'options': ['--no-default-suppression'], 'splitdbg': True}   # split debug info in archives, a removed binary, one binary without any
        if i == 1007:
            wl = {'files': [{'path': 'usr/lib64/libalias.so', 'v1': 'alias_v0', 'v2': 'alias_v1'}, {'path': 'usr/lib64/libmathx.so', 'v1': 'mathx_v0', 'v2': None},
                            {'path': 'usr/lib64/libtiny.so', 'v1': 'tiny_v0', 'v2': 'tiny_v1'}, {'path': 'usr/lib64/libcxx.so', 'v1': None, 'v2': 'cxx_v2'}],
                  'format': 'deb' if K.have_deb() else 'tar.gz', 'abignore': 'first', 'options': ['--no-default-suppression'], 'splitdbg': True}   # Debian packages with -dbg packages
        if i == 1008:
            # a directory reachable under two names in the first package only (lib64 -> lib), two real directories in the second:
            # one file of the first package is matched with two different files of the second, and both pairs count
            wl = {'files': [{'path': 'lib/libshapes.so', 'v1': 'shapes_v0', 'v2': 'shapes_v0'}, {'path': 'lib64/libshapes.so', 'v1': 'shapes_v0', 'v2': 'shapes_v2'},
                            {'path': 'lib/libmathx.so', 'v1': 'mathx_v0', 'v2': 'mathx_v0'}, {'path': 'lib64/libmathx.so', 'v1': 'mathx_v0', 'v2': 'mathx_v1'},
                            {'path': 'libtiny.so', 'v1': 'tiny_v0', 'v2': 'tiny_v0'}],
                  'format': 'dir', 'abignore': 'none', 'options': ['--no-default-suppression'], 'dirlink': {'link': 'lib64', 'dir': 'lib', 'text': 'lib', 'side': 'first'}}
        if len(set(K.side_prefixes(wl))) != 1:
            raise C.InfraError('workload %s leaves the region the reference model is valid in: ELF directory prefixes %r' % (name, K.side_prefixes(wl)))
        it = c31.prepare_item(ctx, name, wl, variant='plain')
        it['model'] = K.model(wl, ps)
        # the per-binary report of every changed pair, as abidiff prints it (abipkgdiff indents it by two blanks)
        it['model']['reports'] = sorted((os.path.basename(f['path']), pair_report(ctx, K.eff(wl, f['v1']), K.eff(wl, f['v2']), wl['options'])) for f in wl['files']
                                        if f['v1'] and f['v2'] and not ('--dso-only' in wl['options'] and K.fam_of(f['path']) in K.EXES) and os.path.basename(f['path']) in it['model']['sections']
                                        and not ('--fail-no-dbg' in wl['options'] and (f['v1'].endswith('_nodbg') or f['v2'].endswith('_nodbg')))
                                        and ps(K.eff(wl, f['v1']), K.eff(wl, f['v2']), wl['options']) & 4)
        items[name] = it
    return items


def make_plans(ctx, tier, items):
    plans = []
    i = 0
    for name in sorted(items):
        for k in range(NSCHED[tier]):
            rng = C.Prng(C.mix_seed(ctx.seed, 30, 0, i)); i += 1
            simt = K.gen_simt(rng, items[name]['nfiles'])
            plans.append({'item': name, 'params': {'simt': simt, 'parallel': k != 0}})
        if items[name]['wl']['format'] != 'dir':
            # a torn archive: the first package's file was cut short (crashed copy, lost tail).  Whatever tar still delivers,
            # abipkgdiff may report an error, or the true verdict if nothing is missing - never "no change" when there is one
            for k in range(2):
                rng = C.Prng(C.mix_seed(ctx.seed, 30, 5, i)); i += 1
                plans.append({'item': name, 'params': {'simt': K.gen_simt(rng, items[name]['nfiles']), 'parallel': rng.chance(1, 2),
                                                      'torn': {'side': rng.choice([1, 1, 2]), 'permille': rng.range(20, 980)}}})
            if items[name]['wl'].get('splitdbg'):
                # the same for the archive of a debug-info package: the binaries are then compared without (part of) their debug info
                for k in range(3):
                    rng = C.Prng(C.mix_seed(ctx.seed, 30, 6, i)); i += 1
                    plans.append({'item': name, 'params': {'simt': K.gen_simt(rng, items[name]['nfiles']), 'parallel': rng.chance(1, 2),
                                                          'torn': {'target': 'debuginfo', 'side': rng.choice([1, 2]), 'permille': rng.range(20, 980)}}})
    return plans


def execute_torn(ctx, it, params):
    import subprocess
    tn = params['torn']
    target = tn.get('target', 'main')
    src = it['p1'] if tn['side'] == 1 else it['p2']
    if target == 'debuginfo':
        src = os.path.join(os.path.dirname(it['p1']), 'pkg-%s1-debuginfo.%s' % ('f' if tn['side'] == 1 else 's', it['wl']['format']))
    body = open(src, 'rb').read()
    cut = max(1, len(body) * tn['permille'] // 1000)
    name = os.path.basename(src)
    # what tar itself says about the fragment: a cut that falls between two members of an uncompressed archive leaves a
    # shorter archive tar extracts without complaint - abipkgdiff cannot know, and nothing is asserted about such a run
    pk = ('tar-accepts', src, cut)
    if pk not in ctx.memo:
        import threading
        probe = os.path.join(ctx.rundir, 'probe-%d-%d-%s' % (os.getpid(), threading.get_ident(), C.sha(('%s|%d' % (src, cut)).encode())[:12]))
        open(probe, 'wb').write(body[:cut])
        cmd = ['dpkg-deb', '--fsys-tarfile', probe] if it['wl']['format'] == 'deb' else ['tar', '-tf', probe]
        ctx.memo[pk] = subprocess.run(cmd, stdout=subprocess.DEVNULL, stderr=subprocess.DEVNULL).returncode == 0
        os.unlink(probe)
    tar_accepts = ctx.memo[pk]

    def prepare(run):
        open(os.path.join(run, name), 'wb').write(body[:cut])
    sp = K.spec(it['wl'], it['p1'], it['p2'], dict(params['simt']), parallel=params.get('parallel', True), root=os.path.dirname(it['p1']))
    if src not in sp['argv']:
        raise C.InfraError('torn-archive plan: %s is not an argument of the run' % src)
    sp['argv'] = ['@RUN@/' + name if a == src else a for a in sp['argv']]
    o = ctx.run('abipkgdiff', sp, prepare=prepare)
    st = o.res.get('simt', {})
    m = it['model']
    verdict, key = None, None
    if st.get('fatal_class'):
        verdict, key = (st['fatal_class'], st.get('fatal_details', '')[:600]), st['fatal_class']
    elif o.klass[0] != 'exit':
        verdict, key = ('crash-in-parallel-run', o.status_key()), 'crash:' + o.status_key()
    elif o.exit == 0 and m['status'] != 0 and not tar_accepts:
        what = 'package %d' % tn['side'] if target == 'main' else 'the debug-info package of package %d' % tn['side']
        verdict, key = ('verdict-mismatch', '%s is a torn archive (%d of %d bytes; tar fails on it) and the packages differ (true verdict %d), yet abipkgdiff exits 0' % (
            what, cut, len(body), m['status'])), 'verdict-mismatch:torn-archive' if target == 'main' else 'verdict-mismatch:torn-debuginfo-archive'
    return F.Result(verdict, key, ['media/torn-archive' if target == 'main' else 'media/torn-debuginfo-archive'] + (['media/torn-archive-that-tar-accepts'] if tar_accepts else []),
                    [(it['name'], 'torn', target, tn['side'], tn['permille'])], digest=(o.exit, C.sha(o.stdout or b''), st.get('log_hash')),
                    info={'exit': o.exit, 'model_status': m['status'], 'torn': tn, 'bytes_kept': cut, 'archive_bytes': len(body), 'tar_accepts_the_fragment': tar_accepts}, steps=st.get('steps', 0), outcome=o.status_key())


def execute(ctx, it, params):
    if params.get('torn'):
        return execute_torn(ctx, it, params)
    simt = dict(params['simt'])
    o = ctx.run('abipkgdiff', K.spec(it['wl'], it['p1'], it['p2'], simt, parallel=params.get('parallel', True)))
    st = o.res.get('simt', {})
    m = it['model']
    verdict, key = None, None
    if st.get('fatal_class'):
        verdict, key = (st['fatal_class'], st.get('fatal_details', '')[:600]), st['fatal_class']
    elif o.klass[0] != 'exit':
        verdict, key = ('crash-in-parallel-run', o.status_key()), 'crash:' + o.status_key()
    else:
        rep = K.parse_report(o.stdout)
        show_added = '--no-added-binaries' not in it['wl']['options']
        if m['removed'] and not (o.exit & 4 and o.exit & 8):
            verdict, key = ('verdict-mismatch', 'binaries %s of the first package are missing from the second, but the exit status is %d (change and incompatible-change bits expected)' % (m['removed'], o.exit)), 'verdict-mismatch:removed-binary'
        elif m['errors'] and ((o.exit & 12) != (m['status'] & 12) or o.exit == 0):
            # a pair whose comparison ends with an error (--fail-no-dbg, no debug info): C30 fixes the change bits (those of the
            # other pairs and of the removed binaries) and forbids exit 0; which error bits are set is C08's business
            verdict, key = ('verdict-mismatch', 'exit status %d, but the change bits of the pairs that can be compared (abidiff) %s removed-binary bits are %d and the pairs %s end with an error' % (
                o.exit, 'plus' if m['removed'] else 'without', m['status'] & 12, m['errors'])), 'verdict-mismatch:pair-status'
        elif not m['errors'] and o.exit != m['status']:
            verdict, key = ('verdict-mismatch', 'exit status %d, but OR of abidiff on the matched pairs %s removed-binary bits is %d' % (o.exit, 'plus' if m['removed'] else 'without', m['status'])), 'verdict-mismatch:pair-status'
        elif rep['sections'] != m['sections'] or rep['section_ends'] != m['sections']:
            verdict, key = ('verdict-mismatch', '"changes of" sections %s, expected %s (pairs whose abidiff status has the change bit)' % (rep['sections'], m['sections'])), 'verdict-mismatch:section-presence'
        elif sorted(rep['bodies']) != [list(x) for x in m['reports']] and sorted(rep['bodies']) != [tuple(x) for x in m['reports']]:
            got = dict((n, b) for n, b in rep['bodies'])
            bad = [n for n, b in m['reports'] if got.get(n) != b]
            if not all(b for n, b in m['reports']):
                raise C.InfraError('empty abidiff report for a changed pair: %r' % [n for n, b in m['reports'] if not b])
            verdict, key = ('verdict-mismatch', 'the per-binary report of %s differs from what abidiff prints for the same pair with the same options' % (bad[:3] or '(multiset)')), 'verdict-mismatch:per-binary-report'
        elif rep['removed'] != m['removed']:
            verdict, key = ('verdict-mismatch', 'Removed binaries list %s, expected %s' % (rep['removed'], m['removed'])), 'verdict-mismatch:removed-list'
        elif show_added and rep['added'] != m['added']:
            verdict, key = ('verdict-mismatch', 'Added binaries list %s, expected %s' % (rep['added'], m['added'])), 'verdict-mismatch:added-list'
    fired = []
    if st.get('spurious_fired'):
        fired += ['spurious-wakeup'] * st['spurious_fired']
    if st.get('starve_skips'):
        fired.append('starvation')
    if st.get('first_use_delays'):
        fired += ['first-use-delay'] * st['first_use_delays']
    if st.get('signal_choices'):
        fired += ['signal-recipient-choice'] * st['signal_choices']
    return F.Result(verdict, key, fired, [(it['name'], st.get('sched_hash'))], digest=(o.exit, C.sha(o.stdout or b''), st.get('log_hash')),
                    info={'exit': o.exit, 'model_status': m['status'], 'removed': m['removed'], 'sections': m['sections'], 'workers': simt.get('nprocs'),
                          'parallel': params.get('parallel', True), 'steps': st.get('steps')},
                    steps=st.get('steps', 0), outcome=o.status_key())


def plan_size(plan):
    return plan['params']['simt'].get('nprocs', 0)


def shrink(ctx, it, params):
    for c in c31.shrink(ctx, it, params):
        c['parallel'] = params.get('parallel', True)
        yield c
    if params.get('parallel', True):
        yield dict(params, parallel=False)


def describe(ctx, cov, items, plans, results):
    cov['rule'] = ('one evaluation = one run of the real abipkgdiff main() on a seeded package pair (1-24 binaries per side, removals, additions, changed and unchanged pairs, '
                   'directories, tar archives or Debian packages, with or without split debug info in --d1/--d2 packages) under one seeded schedule; exit status, "changes of" sections and removed/added lists are compared with the reference model '
                   'computed from abidiff runs on each matched pair; torn-archive runs hand the tool a fragment of one archive and only ask that it never exits 0 when tar fails on the '
                   'fragment and the packages differ; distinct = distinct (package pair, schedule hash or fragment)')
    cov['workloads'] = {n: {'files': len(it['wl']['files']), 'format': it['wl']['format'], 'model': it['model']} for n, it in list(items.items())[:25]}
    cov['probes'] = {'workloads_with_removed_binary': sum(1 for it in items.values() if it['model']['removed']),
                     'workloads_with_removed_binary_and_all_pairs_clean': sum(1 for it in items.values() if it['model']['removed'] and not it['model']['sections']),
                     'workloads_with_added_binary': sum(1 for it in items.values() if it['model']['added']),
                     'workloads_anchored_to_keep_elf_dir_prefix_equal': sum(1 for it in items.values() if it['wl'].get('anchored')),
                     'workloads_with_removal_or_addition_inside_a_directory_tree': sum(1 for it in items.values() if any('/' in f['path'] for f in it['wl']['files'])
                                                                                      and any(not (f['v1'] and f['v2']) for f in it['wl']['files'])),
                     'per_binary_reports_compared_with_abidiff_text': sum(len(it['model'].get('reports', [])) for it in items.values()),
                     'workloads_with_split_debug_info_packages': sum(1 for it in items.values() if it['wl'].get('splitdbg')),
                     'split_debug_info_workloads_with_a_change_that_needs_the_debug_info': sum(1 for it in items.values() if it['wl'].get('splitdbg') and it['model']['sections']),
                     'workloads_all_clean': sum(1 for it in items.values() if it['model']['status'] == 0),
                     'workloads_with_changed_and_clean_pairs': sum(1 for it in items.values() if it['model']['sections'] and len(it['model']['sections']) < sum(1 for f in it['wl']['files'] if f['v1'] and f['v2'])),
                     'distinct_pairs_judged_by_abidiff': sum(1 for k in ctx.memo if k[0] == 'pair'),
                     'model_statuses_seen': sorted(set(it['model']['status'] for it in items.values()))}
    cov['real_vs_stub'] = {'real': ['tools/abipkgdiff.cc main() (comparison queue, comparison_done_notify, removed/added accounting), tools/abidiff.cc main() as per-pair oracle, compiled from the working tree'],
                           'stub': ['blocking semantics of pthread mutex/condvar/join (SIM-T model)', 'sysconf(_SC_NPROCESSORS_ONLN)', 'mkdtemp suffix'],
                           'real_helpers': 'tar, dpkg, rm, mkdir run for real through system() (serialised by the scheduler as one step of the calling thread)',
                           'model': 'vlib/pkgsim.py: model() - a dozen lines'}


def check(tier):
    return F.run_check(__import__('vlib.c30', fromlist=['x']), tier)


def replay_file(path, quiet=False):
    return F.replay_file(__import__('vlib.c30', fromlist=['x']), path, quiet)
