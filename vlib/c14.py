# C14 - outputs are deterministic: abidw, abidiff and abipkgdiff give byte
# identical output and the same exit status whatever the address-space layout,
# allocator behaviour and working directory.  SIM-M: the heap layout (arena
# base addresses, sub-arena choice, padding, free-list reuse order, poison
# bytes) is a pure function of the run seed; the same seed also chooses cwd,
# HOME/XDG_CACHE_HOME/TMPDIR, the creation order of package directories and
# (for abipkgdiff) the SIM-T schedule.  The server runs with ASLR disabled so
# that one seed is one exact address-space layout.
import os, json, threading, hashlib, shutil
from . import common as C, fcheck as F, pkgsim as K

PROP = 'C14'
LEVEL = 'exploration'
VARIANT = 'plain'
TOOLS = [('plain', 'abidw'), ('plain', 'abidiff'), ('plain', 'abipkgdiff')]
JOBS = 2
REPLAY_SAME_RUNDIR = True    # the replay of an item sees the very paths the batch saw (schedule-dependent abipkgdiff outcomes depended on them)
RERUNS = {'quick': 10, 'thorough': 40}
MAX_HANDLE = 6
SERVER_PREFIX = ['setarch', 'x86_64', '-R']   # ADDR_NO_RANDOMIZE: stack, libraries and mmap base fixed; the heap is placed by the seed
ASSUMPTIONS = ['input paths are absolute and identical across seeds; only the environment, heap layout, cwd and schedule vary',
               'order dependence on string-keyed tables or on input order is deterministic and is not this property']
RD = 'tests/data/test-read-dwarf/'
ABIDW_INPUTS = {'pr18828': RD + 'test11-pr18828.so', 'pr18844': RD + 'test12-pr18844.so', 'pr18818-clang': RD + 'test9-pr18818-clang.so',
                'boost_iostreams': RD + 'PR22015-libboost_iostreams.so', 'libaaudio': RD + 'test-libaaudio.so', 'pr18894': RD + 'test13-pr18894.so',
                # pool libraries built to make comparators tie: same-named different types in two translation units, anonymous types, one source compiled twice
                'ties': '@ties_v1', 'twice': '@twice_v0', 'cxx-pool': '@cxx_v2', 'emptymod': '@emptymod_v0', 'kmod': '@ktree_v1/modules/fakemod.ko'}
ABIDW_OPTS = {'default': [], 'no-locs': ['--no-show-locs'], 'annotate': ['--annotate'], 'all-types': ['--load-all-types'], 'hash-ids': ['--type-id-style', 'hash'],
              'no-corpus-path': ['--no-corpus-path', '--no-comp-dir-path'], 'short-locs': ['--short-locs']}
ABIDIFF_PAIRS = {'rvalueref': ('tests/data/test-diff-filter/test30-pr18904-rvalueref-liba.so', 'tests/data/test-diff-filter/test30-pr18904-rvalueref-libb.so'),
                 'lttng': ('tests/data/test-diff-dwarf/PR25058-liblttng-ctl2.10.so', 'tests/data/test-diff-dwarf/PR25058-liblttng-ctl.so'),
                 'struct-change': ('tests/data/test-diff-filter/libtest32-struct-change-v0.so', 'tests/data/test-diff-filter/libtest32-struct-change-v1.so'),
                 'ppc64-aliases': ('tests/data/test-diff-dwarf/libtest36-ppc64-aliases-v0.so', 'tests/data/test-diff-dwarf/libtest36-ppc64-aliases-v1.so'),
                 'pr18818': (RD + 'test9-pr18818-clang.so', RD + 'test10-pr18818-gcc.so'),
                 'emptymod': ('@emptymod_v0', '@emptymod_v1'),
                 'cxx-pool': ('@cxx_v0', '@cxx_v1'), 'cxx-pool-rev': ('@cxx_v2', '@cxx_v0'),
                 'ties': ('@ties_v0', '@ties_v1'), 'ties-rev': ('@ties_v1', '@ties_v0'), 'twice-ties': ('@twice_v0', '@ties_v0')}
ABIDIFF_OPTS = {'default': [], 'redundant': ['--redundant'], 'leaf': ['--leaf-changes-only'], 'harmless': ['--harmless'], 'impacted': ['--impacted-interfaces', '--leaf-changes-only'],
                'stat': ['--stat'], 'unreachable': ['--non-reachable-types'], 'unreachable-leaf': ['--non-reachable-types', '--leaf-changes-only'],
                'unreachable-all': ['--non-reachable-types', '--harmless', '--redundant']}


def item_list(tier):
    items = []
    if tier == 'quick':
        for n, o in (('pr18828', 'default'), ('pr18844', 'default'), ('pr18818-clang', 'annotate'), ('boost_iostreams', 'all-types'), ('libaaudio', 'hash-ids'),
                     ('pr18828', 'no-locs'), ('pr18894', 'default')):
            items.append(('abidw', n, o))
        for n, o in (('ties', 'default'), ('ties', 'all-types'), ('twice', 'all-types'), ('ties', 'annotate'), ('emptymod', 'default'), ('kmod', 'default')):
            items.append(('abidw', n, o))
        for n, o in (('rvalueref', 'default'), ('lttng', 'default'), ('struct-change', 'redundant'), ('ppc64-aliases', 'harmless'), ('pr18818', 'leaf'), ('rvalueref', 'impacted'),
                     ('cxx-pool', 'impacted'), ('cxx-pool-rev', 'impacted'), ('cxx-pool', 'default'), ('emptymod', 'default'),
                     ('ties', 'unreachable'), ('ties-rev', 'unreachable-leaf'), ('ties', 'unreachable-all'), ('twice-ties', 'unreachable'), ('rvalueref', 'unreachable')):
            items.append(('abidiff', n, o))
        for i in list(range(6)) + [90]:
            items.append(('abipkgdiff', 'pk%02d' % i, 'default'))
    else:
        for n in ABIDW_INPUTS:
            for o in ABIDW_OPTS:
                items.append(('abidw', n, o))
        for n in ABIDIFF_PAIRS:
            for o in ABIDIFF_OPTS:
                items.append(('abidiff', n, o))
        for i in list(range(40)) + [90]:
            items.append(('abipkgdiff', 'pk%02d' % i, 'default'))
    return items


def make_items(ctx, only=None):
    items = {}
    for tool, n, o in item_list(ctx.tier if not only else 'thorough'):
        name = '%s/%s/%s' % (tool, n, o)
        if only and name != only:
            continue
        it = {'name': name, 'tool': tool}
        if tool == 'abidw':
            ref_ = ABIDW_INPUTS[n]
            p = (ctx.libs[ref_[1:].split('/')[0]] + ref_[1 + len(ref_[1:].split('/')[0]):]) if ref_.startswith('@') else os.path.join(C.REPO, ref_)
            if not os.path.exists(p) or os.path.getsize(p) == 0:
                continue
            it['argv'] = ['abidw'] + ABIDW_OPTS[o] + [p]
        elif tool == 'abidiff':
            a, b = (ctx.libs[x[1:]] if x.startswith('@') else os.path.join(C.REPO, x) for x in ABIDIFF_PAIRS[n])
            if not (os.path.exists(a) and os.path.exists(b) and os.path.getsize(a) and os.path.getsize(b)):
                continue
            it['argv'] = ['abidiff', '--no-default-suppression'] + ABIDIFF_OPTS[o] + [a, b]
        else:
            idx = int(n[2:])
            it['wl'] = K.gen_workload(C.Prng(C.mix_seed(ctx.seed, 14, 7, idx)), big=(idx % 3 == 2), swarm=True, splitdbg=True)
            it['wl']['format'] = 'dir' if idx % 4 else 'tar'
            if idx in (3, 90):
                import copy
                it['wl'] = copy.deepcopy(K.WL_ERROR_PAIRS)     # the exit status is accumulated in completion order from error and change bits
            if idx % 6 == 1:
                it['wl']['splitdbg'] = True       # split debug info: the debug-info packages are looked up by every comparison task
        ref = run_item(ctx, it, {'k': 0, 'layout_seed': C.mix_seed(ctx.seed, 14, 1, 0)})
        if ref[0].klass[0] != 'exit':
            raise C.InfraError('reference run of %s died: %s %s' % (name, ref[0].klass, (ref[0].stderr or b'')[-300:]))
        it['ref'] = ref
        items[name] = it
    return items


def run_item(ctx, it, params):
    """one run of the item under the environment chosen by params['layout_seed']; returns (outcome, normalised stdout)"""
    rng = C.Prng(params['layout_seed'])
    simm = {'seed': rng.next() & ((1 << 62) - 1), 'poison': 1}
    cwd_rel = '/'.join('d%x' % rng.below(1 << (4 * rng.range(1, 6))) for _ in range(rng.range(0, 4)))
    home_rel = 'h%x' % rng.below(1 << 30)
    tmp_rel = 't%x' % rng.below(1 << 20)
    holder = {}

    # the packages of an item live at one fixed path for all of its runs (the inputs must be "the same inputs"); they are
    # re-created for every run in a seeded creation order, so runs of one item are serialised by a per-item lock
    pkroot = os.path.join(ctx.rundir, 'pkfix', hashlib.sha1(it['name'].encode()).hexdigest()[:12])
    order_seed = rng.next()

    def prepare(run):
        for rel in (cwd_rel, home_rel, tmp_rel):
            os.makedirs(os.path.join(run, rel) if rel else run, exist_ok=True)
        if it['tool'] == 'abipkgdiff':
            shutil.rmtree(pkroot, ignore_errors=True)
            os.makedirs(pkroot)
            holder['pk'] = K.materialise(it['wl'], ctx.libs, pkroot, order_rng=C.Prng(order_seed))

    t = {'simm': simm, 'cwd': '@RUN@/' + cwd_rel if cwd_rel else '@RUN@',
         'env': {'HOME': '@RUN@/' + home_rel, 'TMPDIR': '@RUN@/' + tmp_rel, 'XDG_CACHE_HOME': '@RUN@/' + home_rel + '/.cache',
                 'MALLOC_PERTURB_': str(rng.below(255))}, 'cpu_limit_s': 300}
    if rng.chance(1, 3):
        t['env'].pop('XDG_CACHE_HOME')
    if it['tool'] == 'abipkgdiff':
        simt = K.gen_simt(C.Prng(rng.next()), len(it['wl']['files']))
        ext = '' if it['wl']['format'] == 'dir' else '.' + it['wl']['format']
        dbg = ['--d1', pkroot + '/pkg-f1-debuginfo' + ext, '--d2', pkroot + '/pkg-s1-debuginfo' + ext] if it['wl'].get('splitdbg') else []
        t['argv'] = ['abipkgdiff'] + it['wl']['options'] + dbg + [pkroot + '/pkg-f1' + ext, pkroot + '/pkg-s1' + ext]
        t['simt'] = simt
    else:
        t['argv'] = it['argv']
    marker = {}

    def prep2(run):
        marker['run'] = run
        prepare(run)

    name = 'L%07x' % (params['layout_seed'] & 0xfffffff)
    with it.setdefault('_lock', threading.Lock()) if it['tool'] == 'abipkgdiff' else _nolock:
        o = ctx.run(it['tool'], t, prepare=prep2, name=name)
    out = (o.stdout or b'').replace(marker['run'].encode(), b'@RUN@')
    return o, out


class _NoLock:
    def __enter__(self):
        return self

    def __exit__(self, *a):
        return False


_nolock = _NoLock()


def make_plans(ctx, tier, items):
    plans = []
    K_ = 5 if tier == 'quick' else 15
    i = 0
    known_inputs = set(k.split(':', 1)[1] for k in C.known_open(PROP))
    for name in sorted(items):
        # an input with a listed open finding gets more layouts, so that the finding shows (and is reported as KNOWN-FINDING) in every run
        n = max(K_, 12) if '/'.join(name.split('/')[:2]) in known_inputs or name in known_inputs else K_
        if items[name]['tool'] == 'abipkgdiff':
            n = max(n, 12)      # these items have a schedule on top of the layout: more runs each
        for k in range(1, n + 1):
            plans.append({'item': name, 'params': {'k': k, 'layout_seed': C.mix_seed(ctx.seed, 14, 1, 1000 * i + k)}})
        i += 1
    return plans


def execute(ctx, it, params):
    o, out = run_item(ctx, it, params)
    ro, rout = it['ref']
    verdict, key = None, None
    if o.klass != ro.klass:
        verdict = ('status-differs', 'outcome %s under this layout, %s under the reference layout' % (o.status_key(), ro.status_key()))
        key = 'status-differs:' + '/'.join(it['name'].split('/')[:2])
    elif out != rout:
        verdict = ('output-differs', '%s: output differs between two layouts (%d vs %d bytes): %s' % (it['name'], len(out), len(rout), first_diff(out, rout)))
        key = 'output-differs:' + '/'.join(it['name'].split('/')[:2])      # tool/input: a finding on one input must not hide another
        if 'output-differs:' + it['name'] in C.known_open(PROP):
            key = 'output-differs:' + it['name']                            # a finding listed for one option set of that input only
    sm = o.res.get('simm', {})
    return F.Result(verdict, key, ['heap-layout', 'environment'] + (['schedule'] if it['tool'] == 'abipkgdiff' else []),
                    [(it['name'], sm.get('addr_hash'))], digest=(o.exit, o.signal, C.sha(out), sm.get('addr_hash')),
                    info={'exit': o.exit, 'allocations': sm.get('allocs'), 'first_4096_addresses_hash': sm.get('addr_hash'), 'output_bytes': len(out)},
                    steps=o.res.get('simt', {}).get('steps', 0), outcome=o.status_key())


def first_diff(a, b):
    a, b = a.splitlines(), b.splitlines()
    for i in range(max(len(a), len(b))):
        x = a[i] if i < len(a) else b'<end>'
        y = b[i] if i < len(b) else b'<end>'
        if x != y:
            return 'line %d: %r vs %r' % (i + 1, x[:140], y[:140])
    return 'same lines'


def describe(ctx, cov, items, plans, results):
    cov['rule'] = ('one evaluation = one run of the real tool on fixed inputs under one seeded environment: heap layout (SIM-M allocator), poison bytes, cwd, HOME/TMPDIR/XDG_CACHE_HOME, '
                   'package directory creation order and thread schedule (abipkgdiff); output bytes and exit status must equal those of the reference layout; '
                   'distinct = distinct (item, FNV hash of the first 4096 heap addresses handed out), i.e. distinct heap layouts actually exercised')
    cov['items'] = {n: {'reference_exit': it['ref'][0].exit, 'reference_output_bytes': len(it['ref'][1])} for n, it in items.items()}
    cov['probes'] = {'total_allocations_served_by_the_seeded_heap': sum(r.info.get('allocations') or 0 for r in results)}
    cov['real_vs_stub'] = {'real': ['tools/abidw.cc, tools/abidiff.cc, tools/abipkgdiff.cc main() and all of libabigail, g++ -O1 build (the shipped compiler)', 'libxml2/elfutils/libstdc++ (they allocate from the seeded heap too)'],
                           'stub': ['malloc/free/calloc/realloc/memalign family (sim/simalloc.cc, layout is a pure function of the seed)', 'ASLR (disabled: personality ADDR_NO_RANDOMIZE)',
                                    'cwd and HOME/TMPDIR/XDG_CACHE_HOME values', 'thread schedule (SIM-T) for abipkgdiff']}


def check(tier):
    return F.run_check(__import__('vlib.c14', fromlist=['x']), tier)


def replay_file(path, quiet=False):
    return F.replay_file(__import__('vlib.c14', fromlist=['x']), path, quiet)
