# C34 - reading any ELF input is memory-safe and never aborts in libabigail code
# (decided part: the storage-fault closure of valid binaries; ELF input is
# mmap'ed by elfutils, so only stored-image faults apply).
import os
from . import common as C, fcheck as F, crashcheck as X

PROP, NUM = 'C34', 34
LEVEL = 'fault_enumeration'
VARIANT = 'asan'
TOOLS = [('asan', 'abidw'), ('asan', 'abidiff'), ('asan', 'abisym')]
JOBS = 2
RERUNS = {'quick': 30, 'thorough': 200}
MAX_HANDLE = 60
FIXTURE_KIND = 'elf'
QUICK_N = 3500
CPU_LIMIT = 10
KNOWN_INPUTS = True      # findings are listed by site (known_findings.json) and by input (known_inputs/)
DEP_EXEMPT = True     # the property says "in libabigail code": a crash with no libabigail frame is counted as in-dependency
LEGAL_READS = ()
ASSUMPTIONS = ['decided part only: single stored-image faults in the ELF header, program/section header tables, symbol, hash, version and dynamic sections, .debug_abbrev and the head of .debug_info, plus lost sectors and truncation',
               'a crash whose stack has no libabigail/tool frame (libelf, libdw) is classified in-dependency and is not a violation',
               'closed enumerated space: every signature on the unchanged tree is listed in known_findings.json']
SYMS = {'shapes_gcc.so': 'shape_area', 'shapes_sysvhash.so': 'shape_area', 'alias_versioned.so': 'my_open', 'cxx_clang.so': '_ZN3geo4areaERKNS_6circleE',
        'fnptr_nodebug.so': 'table_len', 'repo_test7.so': 'foo'}


def space(name, body):
    return X.elf_space(body)


weight = X.elf_weight


def commands(name):
    return ['abidw', 'abidiff-dmg-intact', 'abisym']


def applies(cmd, fi, f):
    return cmd == 'abidw' or (cmd == 'abidiff-dmg-intact' and fi % 8 == 0) or (cmd == 'abisym' and fi % 8 == 4)


def command(ctx, it, cmd, dmg):
    if cmd == 'abidw':
        return 'abidw', ['abidw', '--no-corpus-path', dmg], None
    if cmd == 'abidiff-dmg-intact':
        return 'abidiff', ['abidiff', '--no-default-suppression', dmg, it['path']], None
    return 'abisym', ['abisym', dmg, SYMS.get(it['name'], 'main')], None


make_items = lambda ctx, only=None: X.make_items(_me(), ctx, only)
make_plans = lambda ctx, tier, items: X.make_plans(_me(), ctx, tier, items)
execute = lambda ctx, it, p: X.execute(_me(), ctx, it, p)
describe = lambda ctx, cov, items, plans, results: X.describe(_me(), ctx, cov, items, plans, results)


def _me():
    return __import__('vlib.c34', fromlist=['x'])


def check(tier):
    return F.run_check(_me(), tier)


def replay_file(path, quiet=False):
    return F.replay_file(_me(), path, quiet)
