# Shared engine of the three crash properties (C33 ABIXML, C34 ELF, C25
# suppression files): the storage-fault closure of a small pool of committed
# fixtures.  The fault space is finite and explicitly enumerated (fixture x
# offset x fault kind, one fault per run, optionally plus *legal* read faults
# which must not change the outcome); quick draws a seeded sample from that
# set, thorough covers it.  A run is a violation when the tool does not end by
# exit(): signal, sanitizer report, assertion/terminate, or CPU bound exceeded.
import os, json, struct, subprocess, re
from . import common as C, fcheck as F, toolpool as TP

DATA = os.path.join(C.VERIF, 'pool', 'data')


def damage(body, f):
    kind, off = f[0], f[1]
    b = bytearray(body)
    if kind == 'trunc':
        return bytes(b[:off])
    if kind == 'flip':
        b[off] ^= 1 << f[2]
    elif kind == 'set':
        b[off] = f[2]
    elif kind in ('zero', 'ff'):
        n = len(b[off:off + f[2]])
        b[off:off + n] = (b'\x00' if kind == 'zero' else b'\xff') * n
    elif kind == 'misdir':
        n = len(b[off:off + f[2]])
        src = f[3] % max(len(b) - n, 1)
        b[off:off + n] = b[src:src + n]
    return bytes(b)


def text_space(n, thin=1, body=None, delims=b''):
    """storage faults on a text file of n bytes (deterministic order); thin > 1 strides the per-byte faults of big fixtures.
    With body/delims: also a truncation right after every delimiter character and after the blanks that follow it
    (what a crashed writer leaves when it dies between two tokens)."""
    if body is not None and delims:
        seen = set()
        i = 0
        while i < n:
            if body[i] in delims:
                j = i + 1
                cuts = [j]
                while j < n and body[j] in b' \t':
                    j += 1
                if j > i + 1:
                    cuts.append(j)
                for c in cuts:
                    if c < n and c not in seen and c % (8 * thin) != 0:
                        seen.add(c)
                        yield ('trunc', c)
            i += 1
    for off in range(0, n, thin):
        yield ('flip', off, 0)
    for off in range(1, n, 3 * thin):
        yield ('flip', off, 4)
    for off in range(0, n, 8 * thin):
        yield ('trunc', off)
    for off in range(0, n, 32):
        yield ('zero', off, 8)
        yield ('ff', off, 8)
    for off in range(0, n, 64):
        yield ('zero', off, 64)
        yield ('misdir', off, 64, (off * 7 + 129) % max(n, 1))
    for off in range(0, n, 512):
        yield ('zero', off, 512)


# ---- minimal ELF64 little-endian section table reader ------------------------
def elf_regions(body):
    """[(name, offset, size)] of the parts of an ELF file whose corruption libabigail interprets itself"""
    regs = [('ehdr', 0, 64)]
    try:
        if body[:4] != b'\x7fELF' or body[4] != 2 or body[5] != 1:
            return regs
        e_phoff, e_shoff = struct.unpack_from('<QQ', body, 32)
        e_phentsize, e_phnum, e_shentsize, e_shnum, e_shstrndx = struct.unpack_from('<HHHHH', body, 54)
        regs.append(('phdrs', e_phoff, e_phentsize * e_phnum))
        regs.append(('shdrs', e_shoff, e_shentsize * e_shnum))
        sh = []
        for i in range(e_shnum):
            name, typ, flags, addr, off, size = struct.unpack_from('<IIQQQQ', body, e_shoff + i * e_shentsize)
            sh.append((name, typ, off, size))
        stroff = sh[e_shstrndx][2]

        def nm(i):
            e = body.index(b'\0', stroff + i)
            return body[stroff + i:e].decode('latin1')

        want = {'.dynsym': 1 << 20, '.symtab': 1 << 20, '.dynstr': 256, '.strtab': 128, '.hash': 1 << 20, '.gnu.hash': 1 << 20, '.gnu.version': 1 << 20,
                '.gnu.version_r': 1 << 20, '.gnu.version_d': 1 << 20, '.dynamic': 1 << 20, '.debug_abbrev': 1024, '.debug_info': 2048, '.debug_str': 128,
                '.debug_line': 128, '__ksymtab': 512, '.gnu_debuglink': 64, '.note.gnu.build-id': 64}
        for name, typ, off, size in sh:
            n = nm(name)
            if n in want and typ != 8:
                regs.append((n, off, min(size, want[n])))
    except (struct.error, IndexError, ValueError):
        pass
    return regs


def elf_space(body):
    n = len(body)
    seen = set()
    for name, off, size in elf_regions(body):
        dense = name in ('ehdr', 'shdrs', 'phdrs', '.dynsym', '.symtab', '.hash', '.gnu.hash', '.gnu.version', '.gnu.version_r', '.gnu.version_d', '.dynamic')
        semi = name in ('shdrs', 'phdrs', '.symtab', '.dynamic')      # big tables of wide fields: every other byte
        step = 2 if semi else 1 if dense else 4
        for o in range(off, min(off + size, n), step):
            if o in seen:
                continue
            seen.add(o)
            yield ('flip', o, 0)
            yield ('set', o, 0xff)
            if dense and o % (4 if semi else 2) == 0:
                yield ('set', o, 0)
            elif not dense and name.startswith('.debug'):
                yield ('set', o, 0)      # a zeroed length, form or abbreviation code byte in the DWARF sections
    for off in range(0, n, 128):
        yield ('trunc', off)
        yield ('zero', off, 64)
    for off in range(0, n, 512):
        yield ('zero', off, 512)
        yield ('misdir', off, 512, (off * 5 + 4096) % max(n, 1))


_cls_cache = {}
_reg_cache = {}


def elf_weight(name, body, f):
    """3 for a byte fault inside a table libabigail walks itself (symbol, hash, version, dynamic sections, headers), 1 otherwise"""
    if f[0] not in ('flip', 'set'):
        return 1
    k = hash(body)
    if k not in _reg_cache:
        _reg_cache[k] = [(off, off + size) for n, off, size in elf_regions(body)
                         if n in ('ehdr', 'shdrs', '.dynsym', '.symtab', '.hash', '.gnu.hash', '.gnu.version', '.gnu.version_r', '.gnu.version_d', '.dynamic')]
    return 3 if any(a <= f[1] < b for a, b in _reg_cache[k]) else 1


def text_classes(body):
    """per byte of an XML / INI text: 3 inside a quoted value, 2 markup or delimiter, 1 anything else (cached)"""
    k = hash(body)
    if k not in _cls_cache:
        out = bytearray(len(body))
        q = 0
        for i, ch in enumerate(body):
            if q:
                if ch == q:
                    q = 0
                    out[i] = 2
                else:
                    out[i] = 3
            elif ch in (0x27, 0x22):
                q = ch
                out[i] = 2
            elif ch in b'<>/=[]{},':
                out[i] = 2
            elif ch in b' \t\r\n':
                out[i] = 1
            else:
                out[i] = 2
        _cls_cache[k] = bytes(out)
    return _cls_cache[k]


def text_weight(name, body, f):
    if f[0] in ('trunc',):
        return 1
    c = text_classes(body)
    return {3: 4, 2: 2}.get(c[f[1]] if f[1] < len(c) else 1, 1)


def fkey(f):
    return ':'.join(str(x) for x in f)


_sym_cache = {}


def symbolize(exe, offs):
    """module offsets -> function names with one llvm-symbolizer call (cached).  Inlined frames are expanded and the innermost
    *source-level* function is taken, so that the name does not move when an unrelated change alters the compiler's inlining."""
    need = [o for o in offs if (exe, o) not in _sym_cache]
    if need:
        inp = ''.join('%s 0x%x\n' % (exe, o) for o in need)
        try:
            p = subprocess.run(['llvm-symbolizer', '--demangle'], input=inp.encode(), stdout=subprocess.PIPE, stderr=subprocess.DEVNULL, timeout=120)
            blocks = p.stdout.decode('utf-8', 'replace').strip().split('\n\n')
            for o, blk in zip(need, blocks):
                lines = blk.strip().splitlines()
                # the inline chain of this address, innermost first; the entry used is the innermost one that lies in
                # libabigail's own sources (an inlined std::vector::operator[] is not the site)
                chain = [(lines[i], lines[i + 1]) for i in range(0, len(lines) - 1, 2)]
                mine = [c for c in chain if '/src/abg-' in c[1] or '/include/abg-' in c[1] or '/tools/' in c[1] or '/verif/sim/' in c[1]]
                _sym_cache[(exe, o)] = mine[0] if mine else (chain[0] if chain else ('??', ''))
        except Exception:
            pass
        for o in need:
            _sym_cache.setdefault((exe, o), ('??', ''))
    return [_sym_cache[(exe, o)] for o in offs]


def short_fn(sig):
    """'ret ns::cls::fn(args) const' or a demangled name -> 'cls::fn' (last two components, no arguments)"""
    depth = 0
    cut = len(sig)
    for i, ch in enumerate(sig):
        if ch in '<':
            depth += 1
        elif ch == '>':
            depth -= 1
        elif ch == '(' and depth == 0:
            cut = i
            break
    head = sig[:cut].strip()
    head = re.sub(r'\[abi:[^\]]*\]', '', head)
    # drop a return type: the name is the last blank-separated token outside template brackets
    depth, last = 0, 0
    for i, ch in enumerate(head):
        if ch == '<':
            depth += 1
        elif ch == '>':
            depth -= 1
        elif ch == ' ' and depth == 0:
            last = i + 1
    name = head[last:]
    parts = [p for p in re.split(r'::(?![^<]*>)', name) if p]
    parts = [p for p in parts if p not in ('abigail', 'ir', 'xml_reader', 'dwarf_reader', 'suppr', 'ini', 'tools_utils', 'comparison', 'elf_helpers', 'symtab_reader', 'xml_writer', 'workers', '(anonymous namespace)')]
    return '::'.join(parts[-2:]) if parts else name


def site_name(fn, where):
    """short function name; an unqualified one (the -g1 name of an inlined function) is prefixed with its source file"""
    n = short_fn(fn)
    if '::' not in n and where:
        n = os.path.basename(where.split(':')[0]) + ':' + n
    return n


def crash_site(err_bytes, exe):
    """Innermost libabigail/tool function of a crash: from the assertion text if any, else from the (unsymbolised) sanitizer stack."""
    err = (err_bytes or b'').decode('utf-8', 'replace')
    m = re.search(r"^[^\n:]*: [^\n:]+:\d+: (.*): Assertion `(.*)' failed", err, re.M)
    if m:
        return short_fn(m.group(1)), 'assert'
    if 'terminate called' in err:
        m = re.search(r"terminate called after throwing an instance of '([^']+)'", err)
        what = m.group(1) if m else 'terminate'
    else:
        what = None
    frames = re.findall(r'#(\d+) 0x[0-9a-f]+ +\((\S+?)\+0x([0-9a-f]+)\)', err)   # symbolize=0: '#0 0x... (module+0xoff) (BuildId: ...)'
    if frames:
        mine = [(int(i), int(off, 16)) for i, mod, off in frames if os.path.basename(mod) == os.path.basename(exe)]
        # unbounded recursion: all frames the sanitizer printed (up to 250) are looked at, so that the set of functions of the
        # recursion cycle does not depend on the phase in which the stack ran out; otherwise the innermost 24 frames suffice
        names = symbolize(exe, [o for i, o in (mine[:250] if 'stack-overflow' in err else mine[:24])])
        if 'stack-overflow' in err:
            # unbounded recursion: which function of the cycle touches the guard page first depends on where the stack
            # started (environment size, ASLR), so the site is the alphabetically first function of the cycle instead
            # the cycle = the functions that occur several times among the frames (the few innermost frames, in which the
            # stack happened to run out, occur once and depend on the phase)
            cnt = {}
            for (fn, where) in names:
                if ('/src/abg-' in where or '/include/abg-' in where or '/tools/' in where) and not fn.startswith('__') and fn not in ('', '??'):
                    n = site_name(fn, where)
                    cnt[n] = cnt.get(n, 0) + 1
            cyc = sorted(n for n, c in cnt.items() if c >= 3 and not n.endswith(':')) or sorted(cnt)
            if cyc:
                return cyc[0], what or 'stack'
        for (i, o), (fn, where) in zip(mine, names):
            if '/verif/sim/' in where or fn.startswith('__') or 'sanitizer' in fn or fn in ('main', '??', 'run_child'):
                continue
            if '/src/abg-' in where or '/tools/' in where or '/include/abg-' in where or 'abigail' in fn:
                return site_name(fn, where), what or 'stack'
        # no libabigail frame at all before the harness: the crash is inside a dependency called from ... nothing of ours
        first = frames[0]
        return 'dep:' + os.path.basename(first[1]), what or 'stack'
    # symbolised stacks (fallback)
    return TP.site_of(err), what or 'stack'


class CrashCheck:
    """base for the three checks; subclasses (modules) give FIXTURES, commands(), space()"""


def load_fixtures(kind):
    d = os.path.join(DATA, kind)
    out = {}
    for f in sorted(os.listdir(d)):
        out[f] = open(os.path.join(d, f), 'rb').read()
    return out


def make_items(chk, ctx, only=None):
    items = {}
    only = only or os.environ.get('VERIF_ONLY_ITEM')       # development aid: restrict a run to one fixture
    for name, body in load_fixtures(chk.FIXTURE_KIND).items():
        if only and name != only:
            continue
        space = list(chk.space(name, body))
        items[name] = {'name': name, 'body': body, 'path': os.path.join(DATA, chk.FIXTURE_KIND, name), 'space': space}
    # the intact fixtures are points of the space too (fault None, first in the plan list): a tool that dies on a committed,
    # valid file violates the property as much as one that dies on a damaged one
    return items


def make_plans(chk, ctx, tier, items):
    allp = []
    for name in sorted(items):
        for cmd in chk.commands(name):
            allp.append((name, cmd, None))
    n_intact = len(allp)
    for name in sorted(items):
        for fi, f in enumerate(items[name]['space']):
            for cmd in chk.commands(name):
                if chk.applies(cmd, fi, f):
                    allp.append((name, cmd, f))
    ctx.memo['space_size'] = len(allp)
    if tier == 'thorough':
        sel = allp
    else:
        # seeded sample of the closed space, biased (not restricted) to the places where a storage fault changes what the
        # reader is asked to interpret: attribute values and markup of a document, the dense tables of an ELF file
        n = chk.QUICK_N
        rng = C.Prng(C.mix_seed(ctx.seed, chk.NUM, 0, 0))
        wfn = getattr(chk, 'weight', None)
        if wfn:
            cum, tot = [], 0
            wcache = {}
            for (name, cmd, f) in allp:
                if f is None:
                    tot += 1
                    cum.append(tot)
                    continue
                k = (name, f[0], f[1])
                if k not in wcache:
                    wcache[k] = max(1, int(wfn(name, items[name]['body'], f)))
                tot += wcache[k]
                cum.append(tot)
            import bisect
            idx = sorted(set(bisect.bisect_right(cum, rng.below(tot)) for _ in range(n)) | set(range(n_intact)))
        else:
            idx = sorted(set(rng.below(len(allp)) for _ in range(n)) | set(range(n_intact)))
        sel = [allp[i] for i in idx]
    plans = []
    for j, (name, cmd, f) in enumerate(sel):
        p = {'cmd': cmd, 'fault': list(f) if f is not None else None}
        jj = j - n_intact          # position among the fault points (the intact points come first)
        if f is not None and chk.LEGAL_READS and cmd in chk.LEGAL_READS and jj % 5 == 0:
            rng = C.Prng(C.mix_seed(ctx.seed, chk.NUM, 1, jj))
            p['short_reads'] = [[rng.below(4), rng.range(1, 700)] for _ in range(rng.range(1, 3))]
        plans.append({'item': name, 'params': p})
    return plans


def execute(chk, ctx, it, p):
    f = p['fault']
    img = damage(it['body'], f) if f else it['body']
    cmd = p['cmd']

    def prepare(run):
        open(os.path.join(run, 'input'), 'wb').write(img)

    tool, argv, stdin = chk.command(ctx, it, cmd, '@RUN@/input')
    t = {'argv': argv, 'cpu_limit_s': chk.CPU_LIMIT}
    if stdin:
        t['stdin'] = stdin
    if p.get('short_reads'):
        t['simf'] = {'objects': [{'path': '@RUN@/input'}],
                     'faults': [{'obj': 0, 'op': 'read', 'k': k, 'kind': 'short', 'bytes': b} for k, b in p['short_reads']]}
    o = ctx.run(tool, t, prepare=prepare)
    if o.klass[0] == 'hang':
        # CPU time includes system time, and on a machine whose memory management is contended a 50 ms run has been seen
        # to burn its 10 s: a hang must persist with three times the bound before it is believed
        t2 = dict(t, cpu_limit_s=3 * chk.CPU_LIMIT)
        o2 = ctx.run(tool, t2, prepare=prepare)
        if o2.klass[0] != 'hang':
            o = o2
    verdict, key = None, None
    kl = o.klass
    site = None
    if kl[0] not in ('exit',):
        if kl[0] == 'hang':
            site, what = it['name'] + ':' + cmd + ':' + (fkey(f) if f else 'intact'), 'cpu'
        else:
            site, what = crash_site(o.stderr, C.exe(chk.VARIANT, 'toolsim_' + tool))
        cls = '%s:%s' % kl if kl[0] != 'abort' else 'abort:%s' % (what if what != 'stack' else kl[1])
        if chk.DEP_EXEMPT and site.startswith('dep:'):
            pass       # crash with no libabigail frame on the stack: classified separately, not this property's subject
        else:
            verdict = (cls, '%s on %s with fault %s: %s in %s' % (cmd, it['name'], fkey(f) if f else 'none', cls, site))
            key = '%s:%s' % (cls, site)
    elif p.get('short_reads') and f is not None:
        # legal faults: the outcome must be the one of the same image without them
        base = execute(chk, ctx, it, {'cmd': cmd, 'fault': f})
        if base.outcome != o.status_key() and not base.verdict:
            verdict = ('legal-fault-changed-outcome', '%s on %s: %s with short reads, %s without' % (cmd, it['name'], o.status_key(), base.outcome))
            key = 'legal-fault-changed-outcome:' + cmd
    fired = []
    if f:
        fired.append('image/' + f[0])
    sf = o.res.get('simf', {})
    fired += ['read/short'] * sum(1 for x in sf.get('fired', []) if x)
    out_class = o.status_key() if kl[0] == 'exit' else ('%s:%s' % kl) + ('|in-dependency' if site and site.startswith('dep:') else '')
    return F.Result(verdict, key, fired, [(it['name'], cmd, fkey(f) if f else 'intact')], digest=(o.exit, o.signal, kl, key),
                    info={'outcome': o.status_key(), 'site': site, 'stderr_tail': (o.stderr or b'')[-200:].decode('utf-8', 'replace') if kl[0] != 'exit' else ''},
                    io_events=sf.get('io_events', 0), outcome=out_class)


def describe(chk, ctx, cov, items, plans, results):
    cov['rule'] = ('one evaluation = one run of a real tool main() (AddressSanitizer build) on a committed fixture with exactly one storage fault from the enumerated space '
                   '(bit flip, byte set, zeroed / 0xFF run, misdirected sector, truncation), for about a fifth of the runs combined with legal short reads that may not change '
                   'the outcome; distinct = distinct (fixture, command, fault); the run must end by exit() with any status')
    cov['exhaustive'] = ctx.tier == 'thorough'
    cov['fault_space'] = {'points_fixture_x_command_x_fault': ctx.memo.get('space_size'), 'explored_this_run': len(plans),
                          'per_fixture': {n: {'bytes': len(it['body']), 'faults': len(it['space'])} for n, it in items.items()}}
    cov['real_vs_stub'] = {'real': ['the tools\' main() and all of libabigail from the working tree (clang -fsanitize=address), libxml2, elfutils'],
                           'stub': ['the stored image of the fixture (one enumerated fault)', 'read() results on the fixture for the legal-fault runs (SIM-F)']}


def discover(chk, tier='thorough', limit=None):
    """development aid: run the space and list every signature with one example (never part of a registered command).
    Resumable: every executed point is appended to build/discover-<id>.jsonl; a restart skips the points already there
    (the plan list is a pure function of the fixtures and the code of this module)."""
    import hashlib
    ctx = F.Ctx(chk, tier)
    try:
        items = chk.make_items(ctx)
        plans = chk.make_plans(ctx, tier, items)
        if limit:
            plans = plans[::max(1, len(plans) // limit)]
        # the log is keyed by the content of a point, so that it survives additions to the space
        log = os.path.join(C.BUILD, 'discover-%s.jsonl' % chk.PROP)
        pkey = [json.dumps([p['item'], p['params']], sort_keys=True) for p in plans]
        index = dict((k, i) for i, k in enumerate(pkey))
        done = {}
        if os.path.exists(log):
            for l in open(log):
                try:
                    r = json.loads(l)
                    if r.get('p') in index:
                        r['i'] = index[r['p']]
                        done[r['i']] = r
                except ValueError:
                    pass
        todo = [i for i in range(len(plans)) if i not in done]
        print('%s: %d points, %d already done, log %s' % (chk.PROP, len(plans), len(done), log), flush=True)
        jobs = int(os.environ.get('VERIF_DISCOVER_JOBS', '2'))
        with open(log, 'a') as out:
            for a in range(0, len(todo), 400):
                chunk = todo[a:a + 400]
                res = C.pmap(lambda i: chk.execute(ctx, items[plans[i]['item']], plans[i]['params']), chunk, jobs)
                for i, r in zip(chunk, res):
                    rec = {'i': i, 'p': pkey[i], 'outcome': r.outcome, 'key': r.key if r.verdict else None,
                           'details': r.verdict[1] if r.verdict else None, 'stderr': r.info.get('stderr_tail') if r.verdict else None}
                    done[i] = rec
                    out.write(json.dumps(rec) + '\n')
                out.flush()
                print('  %d / %d' % (len(done), len(plans)), flush=True)
        sigs, outcomes = {}, {}
        for i in sorted(done):
            r = done[i]
            outcomes[r['outcome']] = outcomes.get(r['outcome'], 0) + 1
            if r['key']:
                e = sigs.setdefault(r['key'], {'count': 0, 'example': {'item': plans[i]['item'], 'params': plans[i]['params']}, 'details': r['details'], 'stderr': r['stderr']})
                e['count'] += 1
        return {'runs': len(done), 'space': ctx.memo.get('space_size'), 'signatures': sigs, 'outcomes': outcomes}
    finally:
        ctx.close()
