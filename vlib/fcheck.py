# Generic engine for the tool-level simulated checks (SIM-F / SIM-T / SIM-M):
#   items (workload + fault-free reference)  ->  seeded plans  ->  execute + judge
#   ->  determinism gate  ->  minimise  ->  replay file  ->  fresh replay
#   ->  KNOWN-FINDING / VIOLATION lines, evidence.
# A check module supplies: PROP, LEVEL, VARIANT, TOOLS, make_items, make_plans,
# execute, shrink (optional), describe.
import os, json, time, shutil
from . import common as C, pool as P, toolpool as TP, simrun as R


class Ctx:
    def __init__(self, chk, tier, single=False, rundir=None):
        self.chk, self.tier = chk, tier
        self.seed = C.verif_seed()
        self.libs = P.ensure()
        self.build_s = 0.0
        variants = sorted(set(v for v, t in chk.TOOLS))
        for v in variants:
            self.build_s += C.build(v, ['toolsim_' + t for vv, t in chk.TOOLS if vv == v])
        # A check whose outcomes depend on the very paths of a run (REPLAY_SAME_RUNDIR: C14, where paths leak into string
        # hashes, heap contents and through them into completion orders) replays in the directory of the batch: the batch
        # lends its own (it is idle while a violation is handled), a stand-alone replay claims the same slot by the same tag.
        same = getattr(chk, 'REPLAY_SAME_RUNDIR', False)
        self.own_rundir = rundir is None
        self.rundir = rundir or C.run_dir(chk.PROP.lower() + ('-replay' if single and not same else ''))
        self.pools = {}
        for v, t in chk.TOOLS:
            prefix = getattr(chk, 'SERVER_PREFIX', None) or getattr(chk, 'SERVER_PREFIX_BY_VARIANT', {}).get(v)
            self.pools[(v, t)] = TP.ToolPool(v, t, 1 if single else getattr(chk, 'SERVERS', None), prefix=prefix)
        self.memo = {}

    def pool(self, tool, variant=None):
        return self.pools[(variant or self.chk.VARIANT, tool)]

    def run(self, tool, template, collect=(), prepare=None, variant=None, keep=False, name=None):
        return R.execute(self.pool(tool, variant), self.rundir, template, collect=collect, prepare=prepare, keep=keep, name=name)

    def close(self):
        for p in self.pools.values():
            p.close()
        if self.own_rundir:
            shutil.rmtree(self.rundir, ignore_errors=True)


class Result:
    """verdict: None or (class, text).  key: known-finding key.  fired: list of fault-kind labels that actually fired.
    sites: hashable ids of the distinct non-trivial cases this run covered.  digest: anything that must be equal when
    the same plan is executed again.  info: free-form (goes into samples)."""

    def __init__(self, verdict=None, key=None, fired=(), sites=(), digest=None, info=None, io_events=0, steps=0, outcome=''):
        self.verdict, self.key, self.fired, self.sites, self.digest = verdict, key, list(fired), list(sites), digest
        self.info, self.io_events, self.steps, self.outcome = info or {}, io_events, steps, outcome


def run_check(chk, tier):
    ev = C.Evidence(chk.PROP, chk.LEVEL, tier, C.verif_seed())
    ctx = Ctx(chk, tier)
    try:
        items = chk.make_items(ctx)
        plans = chk.make_plans(ctx, tier, items)
        jobs = getattr(chk, 'JOBS', 4)

        def do(plan):
            return chk.execute(ctx, items[plan['item']], plan['params'])

        t0 = time.time()
        results = C.pmap(do, plans, jobs)
        wall = time.time() - t0
        # determinism spot check
        nrer = getattr(chk, 'RERUNS', {'quick': 40, 'thorough': 300})[tier]
        idx = list(range(0, len(plans), max(1, len(plans) // max(nrer, 1))))[:nrer]
        for i in idx:
            r2 = do(plans[i])
            if r2.digest != results[i].digest:
                raise C.InfraError('NONDETERMINISTIC-HARNESS: plan %d (%s) gave a different outcome on re-execution:\n%r\n%r' % (
                    i, json.dumps(plans[i])[:300], results[i].digest, r2.digest))
        # aggregate
        fired, sites, outcomes, per_item = {}, set(), {}, {}
        violations = {}
        io_events = steps = 0
        for plan, r in zip(plans, results):
            for f in r.fired:
                fired[f] = fired.get(f, 0) + 1
            sites.update(r.sites)
            outcomes[r.outcome] = outcomes.get(r.outcome, 0) + 1
            per_item[plan['item']] = per_item.get(plan['item'], 0) + 1
            io_events += r.io_events
            steps += r.steps
            if r.verdict:
                violations.setdefault(r.key or r.verdict[0], []).append((plan, r))
        known = C.known_open(chk.PROP)
        lines, vio_recs, known_hit = [], [], {}
        # Closed-space checks also list their findings by input (known_inputs/<id>.json.gz: the points at which the unchanged
        # tree fails, with the site seen there).  A listed point that fails under another site name - a function was renamed,
        # inlined or split by a change that keeps the behaviour - is the listed finding, not a new one.
        known_inputs = C.known_inputs(chk.PROP) if getattr(chk, 'KNOWN_INPUTS', False) else {}
        if known_inputs:
            for key in list(violations):
                if key in known:
                    continue
                rest = []
                for plan, r in violations[key]:
                    pid = '%s|%s|%s' % (plan['item'], plan['params'].get('cmd'), ':'.join(str(x) for x in plan['params']['fault']) if plan['params'].get('fault') else 'intact')
                    listed = known_inputs.get(pid)
                    if listed and listed in known:
                        known_hit[listed] = known_hit.get(listed, 0) + 1
                        lines.append('KNOWN-FINDING: property=%s %s [this run names the site %s]' % (chk.PROP, known[listed].get('what', listed), key))
                    else:
                        rest.append((plan, r))
                if rest:
                    violations[key] = rest
                else:
                    del violations[key]
        max_handle = getattr(chk, 'MAX_HANDLE', 12)
        handled = 0
        for key in sorted(violations):
            lst = violations[key]
            if key in known:
                known_hit[key] = len(lst)
                lines.append('KNOWN-FINDING: property=%s %s' % (chk.PROP, known[key].get('what', key)))
                continue
            if handled >= max_handle:
                lines.append('VIOLATION property=%s replay=%s' % (chk.PROP, '(not minimised: more than %d distinct violation keys) key=%s' % (max_handle, key)))
                vio_recs.append({'key': key, 'class': lst[0][1].verdict[0], 'details': lst[0][1].verdict[1], 'occurrences': len(lst)})
                continue
            handled += 1
            lst.sort(key=lambda x: chk.plan_size(x[0]) if hasattr(chk, 'plan_size') else 0)
            plan, r = lst[0]
            path, rec = handle_violation(chk, ctx, items, plan, r, key, len(lst))
            lines.append('VIOLATION property=%s replay=%s' % (chk.PROP, path))
            vio_recs.append(rec)
        cov = ev.cov
        cov['evaluations'] = len(results)
        cov['distinct_nontrivial'] = len(sites)
        cov['samples'] = [{'item': p['item'], 'params': p['params'], 'outcome': r.outcome, 'verdict': r.verdict[0] if r.verdict else 'ok', 'info': r.info}
                          for p, r in list(zip(plans, results))[:5]]
        cov['runs_per_hour'] = int(len(results) / max(wall, 1e-6) * 3600)
        cov['simulated_time'] = {'note': 'libabigail reads no clock; simulated time is reported as I/O operations on simulated objects and scheduler steps',
                                 'io_events_on_simulated_objects': io_events, 'scheduler_steps': steps}
        cov['faults_fired'] = fired
        cov['outcomes'] = outcomes
        cov['runs_by_item'] = per_item
        cov['determinism'] = {'plans_re_executed': len(idx), 'mismatches': 0}
        cov['known_findings_hit'] = known_hit
        cov['violations'] = vio_recs
        cov['build_seconds'] = round(ctx.build_s, 1)
        cov['seeds'] = {'VERIF_SEED': ctx.seed, 'derivation': 'per-run PRNG = xoshiro256**(mix_seed(VERIF_SEED, property number, scenario, run index))', 'runs': len(plans)}
        chk.describe(ctx, cov, items, plans, results)
        ev.d['violations'] = len(vio_recs)
        ev.d['assumptions'] = getattr(chk, 'ASSUMPTIONS', [])
        ev.write()
        for l in sorted(set(lines)):
            print(l)
        print('%s %s: %d runs over %d items, %d distinct sites, fired %s, %.0fs' % (
            chk.PROP, tier, len(results), len(items), len(sites), json.dumps(fired, sort_keys=True), time.time() - ev.t0))
        return 1 if vio_recs else 0
    finally:
        ctx.close()


def handle_violation(chk, ctx, items, plan, r, key, occurrences):
    klass = r.verdict[0]

    def still(params):
        r2 = chk.execute(ctx, items[plan['item']], params)
        return r2.verdict is not None and r2.verdict[0] == klass and (r2.key or klass) == key

    if not still(plan['params']) or not still(plan['params']):
        raise C.InfraError('NONDETERMINISTIC-HARNESS: violation %s (%s) did not reproduce on re-execution' % (key, json.dumps(plan)[:400]))
    params = plan['params']
    tries = 0
    if hasattr(chk, 'shrink'):
        progress = True
        while progress and tries < 300:
            progress = False
            for cand in chk.shrink(ctx, items[plan['item']], params):
                tries += 1
                if still(cand):
                    params, progress = cand, True
                    break
    r3 = chk.execute(ctx, items[plan['item']], params)
    replay = {'property': chk.PROP, 'item': plan['item'], 'params': params, 'expect_class': klass, 'key': key,
              'details': r3.verdict[1] if r3.verdict else r.verdict[1], 'info': r3.info, 'shrink_runs': tries,
              'occurrences_in_this_run': occurrences, 'VERIF_SEED': ctx.seed, 'original_params': plan['params']}
    path = C.write_replay(chk.PROP, ''.join(c if c.isalnum() or c in '-_.' else '_' for c in key)[:120], replay)
    if not replay_file(chk, path, quiet=True, rundir=ctx.rundir if getattr(chk, 'REPLAY_SAME_RUNDIR', False) else None):
        raise C.InfraError('NONDETERMINISTIC-HARNESS: replay file %s did not reproduce in a fresh server' % path)
    return path, {'key': key, 'class': klass, 'details': replay['details'], 'params': params, 'occurrences': occurrences, 'shrink_runs': tries}


def replay_file(chk, path, quiet=False, rundir=None):
    j = json.load(open(path))
    ctx = Ctx(chk, 'quick', single=True, rundir=rundir)
    try:
        items = chk.make_items(ctx, only=j['item'])
        r = chk.execute(ctx, items[j['item']], j['params'])
        same = r.verdict is not None and r.verdict[0] == j['expect_class']
        if not quiet:
            if same:
                print('replayed: %s: %s' % (r.verdict[0], r.verdict[1]))
                print('VIOLATION property=%s replay=%s' % (chk.PROP, path))
            else:
                print('replay did not reproduce: verdict %r outcome %s' % (r.verdict, r.outcome))
        return same
    finally:
        ctx.close()
