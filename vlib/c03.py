# C03 (the I/O-dependent sentence only) - `abilint --diff` exits 0 on a
# document that abilint re-serialises byte for byte.  The verdict is produced
# by *another process* (diff -u) reading a temporary file the tool has
# written: a two-party history on one file.  Self-consistency oracle:
#   stdout of plain `abilint doc` == doc   <=>   `abilint --diff doc` exits 0
# and the verdict is unchanged by legal I/O faults and never 0 when the
# temporary file could not be written.
import os, json
from . import common as C, fcheck as F, c36

PROP = 'C03'
LEVEL = 'exploration'
VARIANT = 'plain'
TOOLS = [('plain', 'abidw'), ('plain', 'abilint')]
ENOSPC, EIO = 28, 5
TMP_PREFIX = '/tmp/libabigail-tmp-file-'
REPO_DOCS = {'rw-test10': 'tests/data/test-read-write/test10.xml', 'rw-test14': 'tests/data/test-read-write/test14.xml',
             'rw-test18': 'tests/data/test-read-write/test18.xml', 'rw-test27': 'tests/data/test-read-write/test27.xml',
             'rw-test28': 'tests/data/test-read-write/test28-without-std-fns-ref.xml'}
ASSUMPTIONS = ['only the `abilint --diff` sentence of C03 is decided; whether a document is a fixpoint is taken from the tool\'s own stdout, not asserted',
               'the reading party (diff -u) runs for real in a helper process forked before the seccomp filter; its reads are not faulted']


def tmpl(doc, diff):
    argv = ['abilint'] + (['--diff'] if diff else []) + [doc]
    # private_tmp: abilint hard-codes /tmp; each run gets a mount namespace with a /tmp of its own, so that the only other
    # process it can meet there is the simulated second party, never another run of this check executing in parallel
    return {'argv': argv, 'private_tmp': 1, 'simf': {'objects': [{'prefix': TMP_PREFIX}], 'faults': [], 'helper': 1}}


def make_items(ctx, only=None):
    items = {}
    docs = {}
    for name in sorted(c36.all_libs(ctx.libs)):
        docs['doc-' + name] = lambda n=name: c36.document(ctx, n)
    for name, rel in REPO_DOCS.items():
        p = os.path.join(C.REPO, rel)
        if os.path.exists(p) and os.path.getsize(p) > 0:
            docs[name] = lambda p=p: p
    for name in sorted(docs):
        if only and name != only:
            continue
        path = docs[name]()
        plain = ctx.run('abilint', tmpl(path, False))
        diff = ctx.run('abilint', tmpl(path, True))
        if plain.klass[0] != 'exit' or diff.klass[0] != 'exit':
            raise C.InfraError('fault-free abilint run died on workload document %s: %s %s' % (name, plain.klass, diff.klass))
        body = open(path, 'rb').read()
        ob = diff.res['simf']['objects'][0]
        items[name] = {'name': name, 'path': path, 'fixpoint': plain.exit == 0 and plain.stdout == body, 'plain_exit': plain.exit, 'plain_sha': C.sha(plain.stdout or b''),
                       'diff_exit': diff.exit, 'W': ob['writes'], 'tmp_bytes': ob['bytes_w'],
                       'bytes_at_system': diff.res['simf'].get('bytes_at_system', [0])[0], 'system_calls': diff.res['simf'].get('system_calls', 0)}
    ctx.memo.setdefault('items', {}).update(items)
    return items


KINDS = ['none', 'short-ok', 'enospc', 'eio-once', 'short-then-enospc', 'open-fail', 'twin', 'twin', 'hostile-env']
# 'twin': a second, concurrent `abilint --diff` (a whole run of the same executable, started by the helper process) on a
# *different* document that has the *same file name* in another directory, scheduled by the simulator at one instant of
# the first run: before its temporary file is opened, before its k-th write, before its close, or before its `diff`.
# 'hostile-env': the same command in another process environment: HOME holds an .abignore (and the LIBABIGAIL_DEFAULT_*_SUPPRESSION_FILE
# variables name files) whose rules would drop every function, variable and type.  abilint takes suppressions from --suppr only; what it
# re-emits and the verdict of --diff must be those of the clean environment.
HOSTILE = b"""[suppress_function]
  name_regexp = .*
  drop = yes

[suppress_variable]
  name_regexp = .*
  drop = yes

[suppress_function]
  symbol_name_regexp = .*
  drop = yes
"""
TWIN_AT = ['system', 'system', 'open', 'write', 'close']


def plan_faults(rng, kind, W):
    k = rng.below(max(W, 1))
    if kind == 'short-ok':
        ks = sorted(set(rng.below(max(W, 1)) for _ in range(rng.range(1, 3))))
        return [{'obj': 0, 'op': 'write', 'k': kk, 'kind': 'short', 'bytes': rng.range(1, 8000)} for kk in ks]
    if kind == 'enospc':
        return [{'obj': 0, 'op': 'write', 'k': k, 'kind': 'error', 'errno': ENOSPC, 'sticky': 1}]
    if kind == 'eio-once':
        return [{'obj': 0, 'op': 'write', 'k': k, 'kind': 'error', 'errno': EIO, 'sticky': 0}]
    if kind == 'short-then-enospc':
        return [{'obj': 0, 'op': 'write', 'k': k, 'kind': 'short', 'bytes': rng.range(1, 8000)},
                {'obj': 0, 'op': 'write', 'k': k + 1, 'kind': 'error', 'errno': ENOSPC, 'sticky': 1}]
    if kind == 'open-fail':
        return [{'obj': 0, 'op': 'open', 'k': rng.below(2), 'kind': 'error', 'errno': rng.choice([ENOSPC, 13, 24])}]
    return []


def plan_twin(rng, names, W):
    at = rng.choice(TWIN_AT)
    return {'doc': rng.choice(names), 'at': at, 'k': rng.below(max(W, 1)) if at == 'write' else 0}


def make_plans(ctx, tier, items):
    plans = []
    names = sorted(items)
    if tier == 'quick':
        for i in range(1200):
            rng = C.Prng(C.mix_seed(ctx.seed, 3, 0, i))
            it = items[rng.choice(names)]
            kind = rng.choice(KINDS)
            p = {'kind': kind, 'faults': plan_faults(rng, kind, it['W'])}
            if kind == 'twin':
                p['twin'] = plan_twin(rng, names, it['W'])
            plans.append({'item': it['name'], 'params': p})
        return plans
    i = 0
    for n in names:
        it = items[n]
        for j, other in enumerate(names):
            for at in ('system', 'open', 'close', 'write'):
                plans.append({'item': n, 'params': {'kind': 'twin', 'faults': [], 'twin': {'doc': other, 'at': at, 'k': (j * 7) % max(it['W'], 1) if at == 'write' else 0}}})
        plans.append({'item': n, 'params': {'kind': 'hostile-env', 'faults': []}})
        for kind in KINDS[:6]:
            ks = range(max(it['W'], 1)) if kind in ('short-ok', 'enospc', 'eio-once', 'short-then-enospc') else [0, 1] if kind == 'open-fail' else [0]
            for k in ks:
                rng = C.Prng(C.mix_seed(ctx.seed, 3, 1, i)); i += 1
                fl = plan_faults(rng, kind, it['W'])
                if fl:
                    if kind == 'short-ok':
                        fl = [dict(fl[0], k=k)]
                    else:
                        fl[0]['k'] = k
                        if len(fl) > 1:
                            fl[1]['k'] = k + 1
                plans.append({'item': n, 'params': {'kind': kind, 'faults': fl}})
    return plans


def execute_hostile(ctx, it, params):
    def prepare(run):
        h = os.path.join(run, 'home'); os.makedirs(h)
        for n in ('.abignore', 'system.abignore'):
            open(os.path.join(h, n), 'wb').write(HOSTILE)
    env = {'HOME': '@RUN@/home', 'LIBABIGAIL_DEFAULT_USER_SUPPRESSION_FILE': '@RUN@/home/.abignore', 'LIBABIGAIL_DEFAULT_SYSTEM_SUPPRESSION_FILE': '@RUN@/home/system.abignore'}
    td = dict(tmpl(it['path'], True), env=env)
    tp = dict(tmpl(it['path'], False), env=env)
    od = ctx.run('abilint', td, prepare=prepare)
    op = ctx.run('abilint', tp, prepare=prepare)
    verdict = None
    if od.klass[0] == 'exit' and od.exit != it['diff_exit']:
        verdict = ('diff-verdict-inconsistent', 'abilint --diff exits %d where HOME holds an .abignore and the default-suppression variables are set; %d in a clean environment' % (od.exit, it['diff_exit']))
    elif op.klass[0] == 'exit' and (op.exit != it['plain_exit'] or C.sha(op.stdout or b'') != it['plain_sha']):
        verdict = ('diff-verdict-inconsistent', 'what abilint re-emits depends on the process environment (HOME/.abignore, LIBABIGAIL_DEFAULT_*_SUPPRESSION_FILE): exit %d, %d bytes' % (op.exit, len(op.stdout or b'')))
    return F.Result(verdict, verdict[0] + ':environment' if verdict else None, ['environment/default-suppression-files'], [(it['name'], 'hostile-env')],
                    digest=(od.exit, op.exit, C.sha(op.stdout or b'')), info={'exit': od.exit, 'private_tmp': od.res.get('private_tmp'), 'plain_exit': op.exit, 'document_is_fixpoint': it['fixpoint']},
                    outcome=od.status_key())


def execute(ctx, it, params):
    if params.get('kind') == 'hostile-env':
        return execute_hostile(ctx, it, params)
    fl = params['faults']
    tw = params.get('twin')
    prepare = None
    twin_exit = None
    if tw:
        if tw['doc'] not in ctx.memo.get('items', {}):
            make_items(ctx, only=tw['doc'])      # replay of a single plan: the twin's document has to be known too
        other = ctx.memo['items'][tw['doc']]
        # both parties see "lib.abi": the first in @RUN@/a, the twin in @RUN@/b
        t = tmpl('@RUN@/a/lib.abi', True)
        exe = C.exe(VARIANT, 'toolsim_abilint')
        t['simf']['parties'] = [{'at': tw['at'], 'obj': 0, 'k': tw['k'], 'cmd': '%s --direct @RUN@/twin.json @RUN@/twin.res' % exe}]

        def prepare(run):
            import shutil
            os.makedirs(os.path.join(run, 'a')); os.makedirs(os.path.join(run, 'b'))
            shutil.copyfile(it['path'], os.path.join(run, 'a', 'lib.abi'))
            shutil.copyfile(other['path'], os.path.join(run, 'b', 'lib.abi'))
            spec = {'argv': ['abilint', '--diff', os.path.join(run, 'b', 'lib.abi')], 'stdout': os.path.join(run, 'twin.out'), 'stderr': os.path.join(run, 'twin.err'),
                    'cwd': run, 'env': {'PATH': '/usr/bin:/bin', 'HOME': run, 'TMPDIR': run, 'LC_ALL': 'C'}}
            open(os.path.join(run, 'twin.json'), 'w').write(json.dumps(spec) + '\n')
        o = ctx.run('abilint', t, prepare=prepare, collect=('twin.res', 'twin.err'))
    else:
        t = tmpl(it['path'], True)
        t['simf']['faults'] = fl
        o = ctx.run('abilint', t)
    sf = o.res.get('simf', {})
    firedv = sf.get('fired', [])
    illegal = any(f and fl[j]['kind'] != 'short' for j, f in enumerate(firedv))
    ob = (sf.get('objects') or [{}])[0]
    inj_err = ob.get('failed_ops', 0) > 0
    verdict = None
    if o.klass[0] == 'exit':
        if not illegal:
            want0 = it['fixpoint']
            if want0 and o.exit != 0:
                verdict = ('diff-verdict-inconsistent', 'abilint reproduces the document byte for byte on stdout, but --diff exits %d' % o.exit)
            elif not want0 and o.exit == 0:
                verdict = ('diff-verdict-inconsistent', 'abilint\'s stdout differs from the document (or abilint failed), but --diff exits 0')
            elif firedv and any(firedv) and o.exit != it['diff_exit']:
                verdict = ('legal-fault-changed-outcome', 'short writes on the temporary file changed the --diff verdict from %d to %d' % (it['diff_exit'], o.exit))
        elif inj_err and o.exit == 0:
            verdict = ('diff-verdict-inconsistent', 'the temporary file could not be written completely (injected error), yet --diff exits 0')
    fired, sites = [], []
    if tw:
        pf = (sf.get('parties') or [[0, 0]])[0]
        if pf[0]:
            fired.append('second-party/at-' + tw['at'])
            sites.append((it['name'], 'twin', tw['doc'], tw['at'], tw['k']))
            st = pf[1]
            twin_exit = (st >> 8) & 0xff if st >= 0 and (st & 0x7f) == 0 else -1
            other = ctx.memo['items'][tw['doc']]
            if verdict is None and o.klass[0] == 'exit' and twin_exit != other['diff_exit']:
                verdict = ('diff-verdict-inconsistent', 'the concurrent `abilint --diff` on %s (same file name, other directory), run just before the %s of the first, exits %d; alone it exits %d' % (
                    tw['doc'], tw['at'], twin_exit, other['diff_exit']))
    for j, f in enumerate(firedv):
        if f:
            x = fl[j]
            fired.append('%s/%s%s' % (x['op'], x['kind'], ':errno%d' % x['errno'] if 'errno' in x else ''))
            sites.append((it['name'], x['op'], x['kind'], x['k']))
    if not fl:
        sites.append((it['name'], 'fault-free'))
    flushed = sf.get('system_calls', 0) == 0 or sf.get('bytes_at_system', [0])[0] == ob.get('bytes_w', 0)
    if verdict and tw:
        return F.Result(verdict, verdict[0] + ':concurrent-instance', fired, sites, digest=(o.exit, o.signal, twin_exit),
                        info={'exit': o.exit, 'twin_exit': twin_exit, 'document_is_fixpoint': it['fixpoint'], 'twin': tw}, io_events=sf.get('io_events', 0), outcome=o.status_key())
    key = ('%s:%s' % (verdict[0], 'fault-free' if not illegal and not any(firedv) else 'short-writes' if not illegal else fl[0]['op'] + '-error')) if verdict else None
    return F.Result(verdict, key, fired, sites, digest=(o.exit, o.signal, sf.get('io_hash') if not tw else twin_exit),
                    info={'exit': o.exit, 'private_tmp': o.res.get('private_tmp'), 'twin': tw, 'twin_exit': twin_exit, 'document_is_fixpoint': it['fixpoint'], 'bytes_in_temp_file_when_diff_started': sf.get('bytes_at_system', [0])[0],
                          'bytes_written_to_temp_file': ob.get('bytes_w'), 'flushed_before_diff': flushed},
                    io_events=sf.get('io_events', 0), outcome=o.status_key())


def plan_size(plan):
    if plan['params'].get('twin'):
        return (0, 0)
    fl = plan['params']['faults']
    return (len(fl), fl[0]['k'] if fl else 0)


shrink = c36.shrink


def describe(ctx, cov, items, plans, results):
    cov['rule'] = ('one evaluation = one run of the real `abilint --diff doc` with the real `diff -u` executed by a helper process, under a seeded fault plan on '
                   'the temporary file; distinct = distinct (document, operation, fault kind, k) at which a fault fired, plus one per document for the fault-free run')
    cov['documents'] = {n: {'fixpoint': it['fixpoint'], 'diff_exit_fault_free': it['diff_exit'], 'temp_file_write_calls': it['W'],
                            'temp_bytes': it['tmp_bytes'], 'bytes_in_temp_file_when_diff_started': it['bytes_at_system']} for n, it in items.items()}
    cov['isolation'] = {'runs_in_a_mount_namespace_with_a_private_tmp': sum(1 for r in results if r.info.get('private_tmp') == 1),
                        'runs_where_unshare_or_mount_was_refused_and_the_real_tmp_was_used': sum(1 for r in results if r.info.get('private_tmp') == -1)}
    cov['probes'] = {'documents_that_are_fixpoints': sum(1 for it in items.values() if it['fixpoint']),
                     'documents_that_are_not': sum(1 for it in items.values() if not it['fixpoint']),
                     'runs_where_diff_started_before_all_bytes_were_written': sum(1 for r in results if not r.info.get('flushed_before_diff', True))}
    cov['real_vs_stub'] = {'real': ['tools/abilint.cc main(), src/abg-reader.cc, src/abg-writer.cc, temp_file (std::fstream)', 'diff -u (second party, helper process)'],
                           'stub': ['system() transport (helper process forked before the filter)', 'results of open/write/close on /tmp/libabigail-tmp-file-*']}


def check(tier):
    return F.run_check(__import__('vlib.c03', fromlist=['x']), tier)


def replay_file(path, quiet=False):
    return F.replay_file(__import__('vlib.c03', fromlist=['x']), path, quiet)
