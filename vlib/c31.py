# C31 - parallel package comparison equals sequential comparison, and the
# concurrent analyses do not race.  The real abipkgdiff main() runs under the
# SIM-T scheduler (every pthread operation of the three nested worker queues is
# a seeded scheduling decision; the worker count is a simulator choice via
# sysconf) in the ThreadSanitizer build.
import os, json
from . import common as C, fcheck as F, pkgsim as K

PROP = 'C31'
LEVEL = 'exploration'
VARIANT = 'tsan'
TOOLS = [('tsan', 'abipkgdiff'), ('plain', 'abipkgdiff')]     # plain: the runs with I/O scheduling points (SIM-F trap + SIM-T), see execute()
JOBS = 2
# the runs with I/O scheduling points record file opens and closes in the event log, and the order in which abipkgdiff opens
# files follows containers hashed on addresses: the plain servers run with ASLR off so that every server has the same layout
SERVER_PREFIX_BY_VARIANT = {'plain': ['setarch', 'x86_64', '-R']}
RERUNS = {'quick': 12, 'thorough': 60}
ASSUMPTIONS = ['context switches happen only at pthread operations, system() and mkdtemp; races inside task bodies are decided by ThreadSanitizer\'s happens-before analysis, not manifested',
               'the reference is the same build run with --no-parallel on the same package pair']
NWL = {'quick': 14, 'thorough': 120}
NSCHED = {'quick': 30, 'thorough': 160}
NTORN = {'quick': 10, 'thorough': 40}


def make_items(ctx, only=None):
    items = {}
    n = NWL[ctx.tier]
    for i in list(range(n)) + [1004]:     # wlx04: a hand-made workload on top of the generated ones
        name = 'wl%03d' % i if i < 1000 else 'wlx%02d' % (i - 1000)
        if only and name != only:
            continue
        rng = C.Prng(C.mix_seed(ctx.seed, 31, 7, i))
        wl = K.gen_workload(rng, big=(i % 5 == 4), devel=True, swarm=True, splitdbg=True, deb=True)
        if i == 1:
            # devel packages (private-type suppressions evaluated by every comparison task) with several *changed* pairs,
            # so that more than one task really consults the suppressions
            wl = {'files': [{'path': 'lib/libshapes.so', 'v1': 'shapes_v0', 'v2': 'shapes_v2'}, {'path': 'lib/libcxx.so', 'v1': 'cxx_v0', 'v2': 'cxx_v2'},
                            {'path': 'lib/libfnptr.so', 'v1': 'fnptr_v0', 'v2': 'fnptr_v1'}, {'path': 'lib/libmathx.so', 'v1': 'mathx_v0', 'v2': 'mathx_v1'},
                            {'path': 'lib/libalias.so', 'v1': 'alias_v0', 'v2': 'alias_v1'}],
                  'format': 'dir', 'abignore': 'none', 'options': ['--no-default-suppression'], 'devel': True}
        if i == 2:
            # pairs whose comparison ends with an error (no debug info, --fail-no-dbg) next to pairs with ABI changes and no removed binary (whose bits would mask the others):
            # the exit status is accumulated from tasks that complete in a schedule-dependent order
            wl = {'files': [{'path': 'lib/libcxx.so', 'v1': 'cxx_v0', 'v2': 'cxx_v2'}, {'path': 'lib/libtiny.so', 'v1': 'tiny_v0', 'v2': 'tiny_v1_nodbg'},
                            {'path': 'lib/libshapes.so', 'v1': 'shapes_v0', 'v2': 'shapes_v2'}, {'path': 'lib/libmathx.so', 'v1': 'mathx_v1_nodbg', 'v2': 'mathx_v1'},
                            {'path': 'lib/libfnptr.so', 'v1': 'fnptr_v0', 'v2': 'fnptr_v1'}, {'path': 'lib/libalias.so', 'v1': 'alias_v0', 'v2': 'alias_v0'}],
                  'format': 'dir', 'abignore': 'none', 'options': ['--no-default-suppression', '--fail-no-dbg']}
        if i == 3:
            # --self-check on a package with equal base names in different directories: every task writes the ABIXML of its
            # binary to a temporary file and reads it back
            wl = {'files': [{'path': 'lib/libshapes.so', 'v1': 'shapes_v0', 'v2': 'shapes_v0'}, {'path': 'plugins/a/libshapes.so', 'v1': 'shapes_v2', 'v2': 'shapes_v2'},
                            {'path': 'plugins/b/libshapes.so', 'v1': 'shapes_v3', 'v2': 'shapes_v3'}, {'path': 'lib/libcxx.so', 'v1': 'cxx_v1', 'v2': 'cxx_v1'},
                            {'path': 'plugins/a/libcxx.so', 'v1': 'cxx_v2', 'v2': 'cxx_v2'}],
                  'format': 'dir', 'abignore': 'none', 'options': ['--no-default-suppression'], 'self_check': True}
        if i == 1004:
            # split debug info in archives: the debug-info packages are extracted by further tasks of the extraction queues, and
            # every comparison task looks its debug info up in the shared trees
            wl = {'files': [{'path': 'lib/libshapes.so', 'v1': 'shapes_v0', 'v2': 'shapes_v2'}, {'path': 'lib/libcxx.so', 'v1': 'cxx_v0', 'v2': 'cxx_v2'},
                            {'path': 'lib/libfnptr.so', 'v1': 'fnptr_v0', 'v2': 'fnptr_v1'}, {'path': 'bin/tool', 'v1': 'tool_v0', 'v2': 'tool_v1'},
                            {'path': 'lib/libtiny.so', 'v1': 'tiny_v0_nodbg', 'v2': 'tiny_v1'}],
                  'format': 'tar.gz', 'abignore': 'none', 'options': ['--no-default-suppression'], 'splitdbg': True}
        if i == 0:
            # one hand-made workload that always exercises both .abignore files and pairs that tie in the result
            # ordering (same base name, same summed size) while having different reports (v0->v1 and v1->v0)
            wl = {'files': [{'path': 'lib/libshapes.so', 'v1': 'shapes_v0', 'v2': 'shapes_v1'}, {'path': 'plugins/a/libshapes.so', 'v1': 'shapes_v1', 'v2': 'shapes_v0'},
                            {'path': 'plugins/b/libshapes.so', 'v1': 'shapes_v0', 'v2': 'shapes_v2'}, {'path': 'libtiny.so', 'v1': 'tiny_v0', 'v2': 'tiny_v1'},
                            {'path': 'libmathx.so', 'v1': 'mathx_v0', 'v2': None}],
                  'format': 'dir', 'abignore': 'both', 'options': ['--no-default-suppression']}
        items[name] = prepare_item(ctx, name, wl)
    if only and only not in items and only == 'wl000':
        pass
    return items


def prepare_item(ctx, name, wl, variant=None):
    root = os.path.join(ctx.rundir, 'wl', name)
    os.makedirs(root)
    p1, p2 = K.materialise(wl, ctx.libs, root)
    ref = run_pkg(ctx, {'wl': wl, 'p1': p1, 'p2': p2}, {'seed': 1, 'policy': 0, 'nprocs': 1}, parallel=False, variant=variant)
    if ref.klass[0] != 'exit':
        raise C.InfraError('the sequential reference run of %s died: %s %s' % (name, ref.klass, (ref.stderr or b'')[-400:]))
    return {'name': name, 'wl': wl, 'p1': p1, 'p2': p2, 'ref': ref, 'nfiles': len(wl['files'])}


def run_pkg(ctx, it, simt, parallel=True, variant=None, io_yield=False, torn=None):
    """one abipkgdiff run on the item's packages.  --self-check writes into the package directory itself (abixml/...): such
    a workload is copied into the run's private directory first, so that two runs executing at the same time on this
    machine never share files (the only concurrency is the simulated one)."""
    wl = it['wl']
    p1, p2 = it['p1'], it['p2']
    prepare = None
    if wl.get('self_check'):
        src = p1

        def prepare(run):
            import shutil
            dst = os.path.join(run, os.path.basename(src))
            if os.path.isdir(src):
                shutil.copytree(src, dst, symlinks=True)
            else:
                shutil.copyfile(src, dst)
        p1 = '@RUN@/' + os.path.basename(src)
    spec = K.spec(wl, p1, p2, simt, parallel=parallel, root=os.path.dirname(it['p1']))
    if torn:
        # one of the archives was cut short (a crashed copy): the run gets the fragment under the archive's name
        src, frag = torn_fragment(it, torn)
        if src not in spec['argv']:
            raise C.InfraError('torn-archive plan: %s is not an argument of the run' % src)
        spec['argv'] = ['@RUN@/' + os.path.basename(src) if a == src else a for a in spec['argv']]
        inner = prepare

        def prepare(run):
            if inner:
                inner(run)
            open(os.path.join(run, os.path.basename(src)), 'wb').write(frag)
    if io_yield:
        # scheduling points at every open and close of a file under the run directory (package copy, extraction and cache directories)
        spec['simf'] = {'objects': [{'prefix': '@RUN@'}], 'faults': [], 'io_yield': 1, 'helper': 1}     # helper: abipkgdiff runs mkdir, tar, rm through system()
    name = None
    if io_yield:
        # the order in which abipkgdiff opens files follows containers hashed on path strings: a re-execution must see the very
        # same paths, so the run directory gets a name determined by the plan (as in C14)
        import hashlib
        name = 'P' + hashlib.sha1(json.dumps([it.get('name'), simt, parallel], sort_keys=True).encode()).hexdigest()[:7]
    return ctx.run('abipkgdiff', spec, variant=variant, prepare=prepare, name=name)


def torn_fragment(it, tn):
    src = it['p1'] if tn['side'] == 1 else it['p2']
    if tn.get('target') == 'debuginfo':
        src = os.path.join(os.path.dirname(it['p1']), 'pkg-%s1-debuginfo.%s' % ('f' if tn['side'] == 1 else 's', it['wl']['format']))
    body = open(src, 'rb').read()
    return src, body[:max(1, len(body) * tn['permille'] // 1000)]


def make_plans(ctx, tier, items):
    plans = []
    i = 0
    for name in sorted(items):
        for k in range(NSCHED[tier]):
            rng = C.Prng(C.mix_seed(ctx.seed, 31, 0, i)); i += 1
            p = {'simt': K.gen_simt(rng, items[name]['nfiles'])}
            if rng.chance(1, 3) or (items[name]['wl'].get('self_check') and rng.chance(1, 2)):
                p['io_yield'] = 1      # plain build: scheduling points at file opens and closes as well
            plans.append({'item': name, 'params': p})
        wl = items[name]['wl']
        if wl['format'] != 'dir' and not wl.get('self_check'):
            # error paths under concurrency: one archive is a fragment, so an extraction task fails while the others go on;
            # the reference is the --no-parallel run on the very same fragment
            for k in range(NTORN[tier]):
                rng = C.Prng(C.mix_seed(ctx.seed, 31, 5, i)); i += 1
                plans.append({'item': name, 'params': {'simt': K.gen_simt(rng, items[name]['nfiles']),
                                                      'torn': {'target': 'debuginfo' if wl.get('splitdbg') and rng.chance(1, 2) else 'main',
                                                               'side': rng.choice([1, 2]), 'permille': rng.range(20, 980)}}})
    return plans


def execute(ctx, it, params, variant=None):
    simt = dict(params['simt'])
    io = bool(params.get('io_yield'))
    tn = params.get('torn')
    o = run_pkg(ctx, it, simt, variant='plain' if io else variant, io_yield=io, torn=tn)
    ref = it['ref']
    if tn:
        rk = ('tornref', it['name'], tn.get('target', 'main'), tn['side'], tn['permille'])
        if rk not in ctx.memo:
            r = run_pkg(ctx, it, {'seed': 1, 'policy': 0, 'nprocs': 1}, parallel=False, variant=variant, torn=tn)
            if r.klass[0] != 'exit':
                raise C.InfraError('the sequential reference run of %s on a torn archive died: %s %s' % (it['name'], r.klass, (r.stderr or b'')[-400:]))
            ctx.memo[rk] = r
        ref = ctx.memo[rk]
    st = o.res.get('simt', {})
    verdict, key = None, None
    races = K.tsan_race_key(o.stderr) if o.res.get('tsan_reports', 0) or b'ThreadSanitizer' in (o.stderr or b'') else None
    if st.get('fatal_class'):
        verdict = (st['fatal_class'], st.get('fatal_details', '')[:600])
        key = st['fatal_class']
    elif races:
        verdict = ('data-race', 'ThreadSanitizer: data race between ' + ' ; '.join(races))
        key = 'data-race:' + races[0]
    elif o.klass[0] != 'exit':
        verdict = ('crash-in-parallel-run', '%s: %s' % (o.status_key(), (o.stderr or b'')[-400:].decode('utf-8', 'replace')))
        key = 'crash:' + o.status_key()
    elif o.exit != ref.exit:
        verdict = ('status-differs', 'exit status %d with %d workers under this schedule, %d with --no-parallel' % (o.exit, simt.get('nprocs', 0), ref.exit))
        key = 'status-differs'
    elif o.stdout != ref.stdout:
        verdict = ('output-differs', 'report differs from the --no-parallel report (%d vs %d bytes): %s' % (len(o.stdout or b''), len(ref.stdout or b''), first_diff(o.stdout, ref.stdout)))
        key = 'output-differs'
    fired = []
    if st.get('spurious_fired'):
        fired += ['spurious-wakeup'] * st['spurious_fired']
    if st.get('starve_skips'):
        fired.append('starvation')
    if st.get('first_use_delays'):
        fired += ['first-use-delay'] * st['first_use_delays']
    if st.get('signal_choices'):
        fired += ['signal-recipient-choice'] * st['signal_choices']
    if io:
        fired.append('io-scheduling-points')
    if tn:
        fired.append('media/torn-%s-archive' % tn.get('target', 'main'))
    return F.Result(verdict, key, fired, [(it['name'], st.get('sched_hash')) + ((tn.get('target', 'main'), tn['side'], tn['permille']) if tn else ())], digest=(o.exit, C.sha(o.stdout or b''), st.get('log_hash'), o.res.get('tsan_reports')),
                    info={'exit': o.exit, 'workers': simt.get('nprocs'), 'policy': simt.get('policy'), 'steps': st.get('steps'), 'threads': st.get('threads'),
                          'max_enabled': st.get('max_enabled'), 'lock_contended': st.get('lock_contended'), 'io_yield': io,
                          'io_events': o.res.get('simf', {}).get('io_events')},
                    steps=st.get('steps', 0), outcome=o.status_key())


def first_diff(a, b):
    a, b = (a or b'').splitlines(), (b or b'').splitlines()
    for i in range(max(len(a), len(b))):
        x = a[i] if i < len(a) else b'<end>'
        y = b[i] if i < len(b) else b'<end>'
        if x != y:
            return 'line %d: %r vs %r' % (i + 1, x[:120], y[:120])
    return 'identical lines'


def plan_size(plan):
    return plan['params']['simt'].get('nprocs', 0)


def shrink(ctx, it, params):
    s = params['simt']
    for k in ('spurious_budget', 'starve_victim'):
        if k in s:
            t = dict(s); t.pop(k); t.pop('spurious_permille', None) if k == 'spurious_budget' else (t.pop('starve_from', None), t.pop('starve_len', None))
            yield dict(params, simt=t)
    if s.get('nprocs', 1) > 2:
        yield dict(params, simt=dict(s, nprocs=2))
        yield dict(params, simt=dict(s, nprocs=s['nprocs'] // 2))
    if 'decisions' not in s:
        # capture the decision list of this very run and replay it explicitly
        import tempfile
        dpath = os.path.join(ctx.rundir, 'dec-%d.json' % os.getpid())
        t = dict(s, decisions_out=dpath)
        run_pkg(ctx, it, t, variant='plain' if params.get('io_yield') else None, io_yield=bool(params.get('io_yield')), torn=params.get('torn'))
        try:
            dec = json.load(open(dpath))
            yield dict(params, simt=dict(s, decisions=[d[2] for d in dec], _defaults=[d[3] for d in dec]))
        except (IOError, ValueError):
            pass
    else:
        dec, dfl = s['decisions'], s.get('_defaults') or []
        nd = [i for i in range(len(dec)) if dec[i] != -1 and (i >= len(dfl) or dec[i] != dfl[i])]
        # halves first, then single decisions
        for chunk in (len(nd) // 2, len(nd) // 4, 1):
            if chunk < 1:
                continue
            for a in range(0, len(nd), chunk):
                drop = set(nd[a:a + chunk])
                cand = [(-1 if i in drop else dec[i]) for i in range(len(dec))]
                if cand != dec:
                    yield dict(params, simt=dict(s, decisions=cand))


def describe(ctx, cov, items, plans, results):
    cov['rule'] = ('one evaluation = one run of the real abipkgdiff main() on a seeded package pair under one seeded schedule (policy, worker count 1-16 via sysconf, spurious '
                   'wake-ups, starvation window); its stdout and exit status are compared with the --no-parallel run of the same pair, and ThreadSanitizer watches the run; '
                   'torn-archive runs hand both the parallel and the --no-parallel run the same fragment of one archive (error paths of the extraction queues); '
                   'distinct = distinct (package pair, FNV hash of the (thread, operation) sequence)')
    cov['workloads'] = {n: {'files': len(it['wl']['files']), 'format': it['wl']['format'], 'abignore': it['wl']['abignore'], 'options': it['wl']['options'],
                            'reference_exit': it['ref'].exit, 'reference_report_bytes': len(it['ref'].stdout or b'')} for n, it in items.items()}
    cov['probes'] = {'max_threads_in_a_run': max([r.info.get('threads') or 0 for r in results] or [0]), 'max_enabled_threads': max([r.info.get('max_enabled') or 0 for r in results] or [0]),
                     'runs_with_lock_contention': sum(1 for r in results if r.info.get('lock_contended')),
                     'worker_counts_used': sorted(set(r.info.get('workers') for r in results)),
                     'workloads_with_both_abignore': sum(1 for it in items.values() if it['wl']['abignore'] == 'both'),
                     'archive_workloads': sum(1 for it in items.values() if it['wl']['format'] != 'dir'),
                     'workloads_with_split_debug_info_packages': sum(1 for it in items.values() if it['wl'].get('splitdbg')),
                     'debian_package_workloads': sum(1 for it in items.values() if it['wl']['format'] == 'deb'),
                     'torn_archive_runs': sum(1 for p in plans if p['params'].get('torn'))}
    cov['real_vs_stub'] = {'real': ['tools/abipkgdiff.cc main() with its three nested worker queues, src/abg-workers.cc, the DWARF reader and comparison engine, compiled from the working tree with -fsanitize=thread',
                                    'tar (archive workloads) through the real system()', 'real pthreads, one running at a time'],
                           'stub': ['blocking semantics of pthread mutex/condvar/join (SIM-T model)', 'sysconf(_SC_NPROCESSORS_ONLN)', 'mkdtemp suffix']}


def check(tier):
    return F.run_check(__import__('vlib.c31', fromlist=['x']), tier)


def replay_file(path, quiet=False):
    return F.replay_file(__import__('vlib.c31', fromlist=['x']), path, quiet)
