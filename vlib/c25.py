# C25 - loading and applying any suppression file never crashes (decided part:
# storage faults and read faults on valid suppression and KMI whitelist files).
import os
from . import common as C, fcheck as F, crashcheck as X

PROP, NUM = 'C25', 25
LEVEL = 'fault_enumeration'
VARIANT = 'asan'
TOOLS = [('asan', 'abidiff'), ('asan', 'abidw'), ('asan', 'abicompat')]
JOBS = 2
RERUNS = {'quick': 30, 'thorough': 200}
MAX_HANDLE = 40
FIXTURE_KIND = 'suppr'
QUICK_N = 4500
CPU_LIMIT = 10
DEP_EXEMPT = False
LEGAL_READS = ('abidiff-suppr', 'abidw-suppr', 'abidiff-suppr-shapes')
ASSUMPTIONS = ['decided part only: truncation, bit flips (which turn = , { } " \\ into something else), lost and misdirected sectors and short reads on valid suppression / whitelist files; a grammar-based generator is input generation and is not attempted',
               'closed enumerated space: every signature on the unchanged tree is listed in known_findings.json']


def space(name, body):
    return X.text_space(len(body), thin=2 if len(body) > 1500 else 1, body=body if len(body) < 3000 else None, delims=b',={}[]"\\')


weight = X.text_weight


def commands(name):
    if name.startswith('kmi-'):
        return ['abidiff-kmi']
    if name.startswith('rich-'):
        # specifications written for this pool: they name the types, functions and members of the shapes family, so that
        # their constraints (offsets of members, enumerators, parameters) are really evaluated against the binaries
        return ['abidiff-suppr', 'abidiff-suppr-shapes', 'abidiff-suppr-nodbg', 'abidw-suppr', 'abicompat-suppr']
    return ['abidiff-suppr', 'abidiff-suppr-nodbg', 'abidw-suppr', 'abicompat-suppr']


def applies(cmd, fi, f):
    if cmd == 'abidiff-suppr-nodbg':
        # binaries without debug info: ELF symbols that no declaration describes are added and removed, which is the only
        # way into the symbol-level evaluation of function and variable suppressions
        return fi % 5 == 2
    return cmd in ('abidiff-suppr', 'abidiff-kmi', 'abidiff-suppr-shapes') or (cmd == 'abidw-suppr' and fi % 4 == 0) or (cmd == 'abicompat-suppr' and fi % 4 == 1)


def command(ctx, it, cmd, dmg):
    L = ctx.libs
    if cmd == 'abidiff-suppr':
        return 'abidiff', ['abidiff', '--no-default-suppression', '--suppressions', dmg, L['alias_v0'], L['alias_v1']], None
    if cmd == 'abidiff-suppr-shapes':
        return 'abidiff', ['abidiff', '--no-default-suppression', '--suppressions', dmg, L['shapes_v0'], L['shapes_v2']], None
    if cmd == 'abidiff-suppr-nodbg':
        return 'abidiff', ['abidiff', '--no-default-suppression', '--suppressions', dmg, L['shapes_v3_nodbg'], L['shapes_v0_nodbg']], None     # a removed and an added function symbol, an added variable symbol
    if cmd == 'abidiff-kmi':
        return 'abidiff', ['abidiff', '--no-default-suppression', '--kmi-whitelist', dmg, L['alias_v0'], L['alias_v1']], None
    if cmd == 'abidw-suppr':
        return 'abidw', ['abidw', '--no-corpus-path', '--suppressions', dmg, L['shapes_v1']], None
    return 'abicompat', ['abicompat', '--suppressions', dmg, L['app'], L['shapes_v0'], L['shapes_v2']], None


make_items = lambda ctx, only=None: X.make_items(_me(), ctx, only)
make_plans = lambda ctx, tier, items: X.make_plans(_me(), ctx, tier, items)
execute = lambda ctx, it, p: X.execute(_me(), ctx, it, p)
describe = lambda ctx, cov, items, plans, results: X.describe(_me(), ctx, cov, items, plans, results)


def _me():
    return __import__('vlib.c25', fromlist=['x'])


def check(tier):
    return F.run_check(_me(), tier)


def replay_file(path, quiet=False):
    return F.replay_file(_me(), path, quiet)
