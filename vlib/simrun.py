# One simulated tool run = a spec template (with @RUN@ standing for the run's
# private directory) executed by a toolsim server.  Used by all SIM-F / SIM-T /
# SIM-M checks, by minimisation and by replay.
import os, json, shutil, itertools, threading
from . import common as C
from . import toolpool as TP

_counter = itertools.count()
_lock = threading.Lock()


def subst(x, run):
    if isinstance(x, str):
        return x.replace('@RUN@', run).replace('@POOL@', os.path.join(C.VERIF, 'build', 'pool')).replace('@DATA@', os.path.join(C.VERIF, 'pool', 'data')).replace('@REPO@', C.REPO)
    if isinstance(x, list):
        return [subst(i, run) for i in x]
    if isinstance(x, dict):
        return {k: subst(v, run) for k, v in x.items()}
    return x


class Outcome:
    __slots__ = ('res', 'stdout', 'stderr', 'files', 'klass', 'exit', 'signal')

    def __init__(self, res, out, err, files):
        self.res, self.stdout, self.stderr, self.files = res, out, err, files
        self.klass = TP.classify(res, err)
        self.exit = res.get('exit', -1)
        self.signal = res.get('signal', 0)

    def status_key(self):
        return '%s:%s' % self.klass


def execute(pool, rundir, template, collect=(), prepare=None, keep=False, name=None):
    """template: spec dict with placeholders.  collect: names (relative to the run dir) of files to read back.
    prepare(run_path): optional callback that materialises input files before the run."""
    with _lock:
        n = next(_counter)
    run = os.path.join(rundir, 'r%07d' % n)   # fixed width: the path length must not depend on the run counter (it would leak into heap layouts)
    if name:
        # a plan-determined name (8 chars like the default): re-executing the same plan then sees byte-identical paths,
        # which matters when heap layouts and string-hash orders are part of what is compared
        cand = os.path.join(rundir, name[:8].ljust(8, '_'))
        if not os.path.exists(cand):
            run = cand
    os.makedirs(run)
    try:
        spec = subst(template, run)
        spec.setdefault('id', n)
        spec.setdefault('stdout', os.path.join(run, 'stdout'))
        spec.setdefault('stderr', os.path.join(run, 'stderr'))
        spec.setdefault('cwd', run)
        env = dict(TP.ENV_BASE)
        env.update({'HOME': run, 'TMPDIR': run, 'XDG_CACHE_HOME': os.path.join(run, '.cache')})
        env.update(spec.get('env') or {})
        spec['env'] = env
        if prepare:
            prepare(run)
        res = pool.run(spec)
        out = TP.read(spec['stdout'], 64 << 20)
        err = TP.read(spec['stderr'], 1 << 20)
        files = {name: TP.read(os.path.join(run, name), 64 << 20) for name in collect}
        return Outcome(res, out, err, files)
    finally:
        if not keep:
            shutil.rmtree(run, ignore_errors=True)
