# C32 - the worker queue performs every task exactly once and always drains.
# Seeded search over schedules and scheduling faults of the real
# abigail::workers::queue under SIM-T (sim/queue_sim.cc), history check against
# a multiset reference model, plus a ThreadSanitizer pass over the same seeds.
import os, sys, json, time, queue as pyqueue, struct
from . import common as C

PROP = 'C32'


def _parse(out):
    res = []
    for line in out.decode('utf-8', 'replace').splitlines():
        line = line.strip()
        if line.startswith('{'):
            try:
                res.append(json.loads(line))
            except ValueError:
                pass
    return res


class Pool:
    """runs queue_sim chunks pinned one per CPU (token passing is 4x faster when pinned)"""

    def __init__(self):
        self.cpus = pyqueue.Queue()
        try:
            avail = sorted(os.sched_getaffinity(0))
        except AttributeError:
            avail = list(range(C.NCPU))
        for c in avail[:C.NCPU]:
            self.cpus.put(c)
        self.n = min(len(avail), C.NCPU)

    def run(self, cmd, timeout=900):
        cpu = self.cpus.get()
        try:
            return C.run_cmd(['taskset', '-c', str(cpu)] + cmd, timeout=timeout)
        finally:
            self.cpus.put(cpu)


def run_one(variant, run_seed, overrides=None, decisions=None, pool=None):
    cmd = [C.exe(variant, 'queue_sim'), '--one', str(run_seed)]
    if overrides:
        cmd += ['--override', ','.join('%s=%d' % kv for kv in sorted(overrides.items()))]
    if decisions is not None:
        cmd += ['--decisions', ','.join(str(d) for d in decisions) if decisions else '-1']
    rc, out, err = (pool.run(cmd, 900) if pool else C.run_cmd(cmd, timeout=900))
    recs = _parse(out)
    v = [r for r in recs if r.get('result') == 'violation']
    ok = [r for r in recs if r.get('result') == 'ok']
    if rc == 77 or (rc < 0 and rc != -999):
        return {'result': 'violation', 'class': 'crash-in-queue', 'log_hash': '', 'details': err.decode('utf-8', 'replace')[-2000:], 'decisions': [], 'cfg': {}}
    if rc == 2 or rc == -999:
        raise C.InfraError('queue_sim stalled or timed out (rc=%s): %s' % (rc, err[-500:]))
    if v:
        v[0]['stderr'] = err.decode('utf-8', 'replace')[-6000:]
        return v[0]
    return ok[0] if ok else {'result': 'ok'}


def minimise(variant, v, pool, log):
    """Shrink a violation: workload first, then the decision list towards defaults."""
    klass = v['class']
    seed = v['seed']
    tries = [0]

    def fails(ov, dec):
        tries[0] += 1
        r = run_one(variant, seed, ov, dec, pool)
        return r if (r.get('result') == 'violation' and r.get('class') == klass) else None

    ov = {}
    cur = fails(ov, None)
    if cur is None:
        return None, tries[0]
    cfg = cur.get('cfg', {})
    # 1. workload reduction under the PRNG schedule (each step must keep the class)
    simple = [('double_wait', 0), ('post_wait_schedule', 0), ('main_yields', 0), ('no_nil', 1), ('no_batch', 1),
              ('task_yields', 0), ('notifier_yields', 0), ('spurious_budget', 0)]
    for k, val in simple:
        t = dict(ov); t[k] = val
        r = fails(t, None)
        if r:
            ov, cur = t, r
    for key, lo in (('ntasks', 0), ('workers', 1)):
        val = cur.get('cfg', {}).get(key, cfg.get(key, 1))
        while val > lo:
            for cand in sorted(set([lo, val // 2, val - 1])):
                if cand >= val:
                    continue
                t = dict(ov); t[key] = cand
                if key == 'workers':
                    t['ctor'] = max(1, cur.get('cfg', {}).get('ctor', 2))
                r = fails(t, None)
                if r:
                    ov, cur, val = t, r, cand
                    break
            else:
                break
    # 2. schedule reduction: replay the recorded decisions, then push them to defaults
    dec = [d[2] for d in cur.get('decisions', [])]
    dfl = [d[3] for d in cur.get('decisions', [])]
    r = fails(ov, dec)
    if r is None:
        # the PRNG-mode failure must replay from its own decision list
        return {'error': 'decision list does not replay', 'overrides': ov, 'decisions': dec}, tries[0]
    cur = r
    nondefault = [i for i in range(len(dec)) if dec[i] != dfl[i]]

    def build(keep):
        ks = set(keep)
        return [dec[i] if i in ks else -1 for i in range(len(dec))]

    def test(keep):
        return fails(ov, build(keep)) is not None

    if test(nondefault):
        keep = C.ddmin(nondefault, test) if len(nondefault) <= 400 else nondefault
    else:
        keep = list(range(len(dec)))
    final_dec = build(keep)
    while final_dec and final_dec[-1] == -1:
        final_dec.pop()
    r = fails(ov, final_dec)
    if r is None:
        final_dec = dec
        r = fails(ov, final_dec)
    return {'overrides': ov, 'decisions': final_dec, 'forced_switches': len([x for x in final_dec if x != -1]),
            'result': r}, tries[0]


def handle_violation(variant, v, pool, ev, known):
    """determinism gate -> minimise -> replay file -> fresh-process replay.  Returns a report line."""
    klass, seed = v['class'], v['seed']
    a = run_one(variant, seed, None, None, pool)
    b = run_one(variant, seed, None, None, pool)
    if not (a.get('result') == 'violation' and b.get('result') == 'violation' and a['class'] == klass == b['class']
            and a.get('log_hash') == b.get('log_hash')):
        raise C.InfraError('NONDETERMINISTIC-HARNESS: seed %d gave %s/%s then %s/%s' % (
            seed, a.get('class'), a.get('log_hash'), b.get('class'), b.get('log_hash')))
    m, tries = minimise(variant, v, pool, None)
    if m is None or 'error' in m:
        raise C.InfraError('NONDETERMINISTIC-HARNESS: minimisation could not reproduce seed %d (%s)' % (seed, m))
    r = m['result']
    replay = {'property': PROP, 'engine': 'queue_sim', 'variant': variant, 'run_seed': seed, 'overrides': m['overrides'],
              'decisions': m['decisions'], 'expect_class': klass, 'expect_log_hash': r.get('log_hash'),
              'details': r.get('details'), 'cfg': r.get('cfg'), 'shrink_runs': tries,
              'event_log_tail': r.get('log', '').splitlines()[-80:], 'sanitizer_output': r.get('stderr', '')[-4000:] if klass == 'data-race' else ''}
    path = C.write_replay(PROP, '%s-%d' % (klass, seed), replay)
    rr = replay_file(path, quiet=True)
    if not rr:
        raise C.InfraError('NONDETERMINISTIC-HARNESS: replay file %s did not reproduce' % path)
    key = klass
    if key in known:
        return 'KNOWN-FINDING: property=%s %s' % (PROP, known[key].get('what', key)), None
    return 'VIOLATION property=%s replay=%s' % (PROP, path), {'class': klass, 'seed': seed, 'details': r.get('details'),
                                                                 'minimised': {'overrides': m['overrides'], 'forced_decisions': m['forced_switches'],
                                                                               'decisions_total': len(m['decisions'])}, 'shrink_runs': tries}


def replay_file(path, quiet=False):
    j = json.load(open(path))
    C.build(j['variant'], ['queue_sim'])
    r = run_one(j['variant'], j['run_seed'], j.get('overrides') or None, j.get('decisions'))
    same = r.get('result') == 'violation' and r.get('class') == j['expect_class']
    if not quiet:
        if same:
            print('replayed: class=%s log_hash=%s (expected %s) details=%s' % (r['class'], r.get('log_hash'), j.get('expect_log_hash'), r.get('details')))
            print('VIOLATION property=%s replay=%s' % (PROP, path))
        else:
            print('replay did not reproduce: got %s' % (r.get('class') or r.get('result')))
    return same


def check(tier):
    seed = C.verif_seed()
    ev = C.Evidence(PROP, 'exploration', tier, seed)
    bt = C.build('asan', ['queue_sim']) + C.build('tsan', ['queue_sim'])
    pool = Pool()
    n_asan, n_tsan, chunk = (24000, 4000, 500) if tier == 'quick' else (2000000, 200000, 5000)
    n_det = 8 if tier == 'quick' else 32   # chunks re-run in a second process and compared
    rd = C.run_dir('c32')
    jobs = []
    for variant, n in (('asan', n_asan), ('tsan', n_tsan)):
        for i in range(0, n, chunk):
            jobs.append((variant, i, min(chunk, n - i)))

    def do(job):
        variant, frm, cnt = job
        hf = os.path.join(rd, '%s-%d.h' % (variant, frm))
        rc, out, err = pool.run([C.exe(variant, 'queue_sim'), '--seed-base', str(seed), '--from', str(frm), '--count', str(cnt), '--hash-out', hf])
        return job, rc, _parse(out), err, hf

    t0 = time.time()
    results = C.pmap(do, jobs, pool.n)
    # determinism spot check: same chunks again, other CPU, other process
    det_jobs = [jobs[i] for i in range(0, len(jobs), max(1, len(jobs) // n_det))][:n_det]
    det = C.pmap(do, det_jobs, pool.n)
    wall_runs = time.time() - t0
    first = {(j[0], j[1]): recs for j, rc, recs, err, hf in results}
    det_mismatch = []
    for j, rc, recs, err, hf in det:
        h1 = [r.get('all_hash') for r in first[(j[0], j[1])] if r.get('result') == 'summary']
        h2 = [r.get('all_hash') for r in recs if r.get('result') == 'summary']
        if h1 != h2:
            det_mismatch.append((j, h1, h2))
    if det_mismatch:
        raise C.InfraError('NONDETERMINISTIC-HARNESS: chunk hashes differ between two processes: %r' % det_mismatch[:3])

    tot = {}
    hashes = {'asan': set(), 'tsan': set()}
    violations = []
    for (variant, frm, cnt), rc, recs, err, hf in results:
        if rc == 2 or rc == -999 or rc < 0 or rc not in (0, 1):
            if rc == 77 or rc < 0 and rc != -999:
                violations.append((variant, {'class': 'crash-in-queue', 'seed': None, 'details': err.decode('utf-8', 'replace')[-3000:], 'from': frm}))
                continue
            raise C.InfraError('queue_sim chunk %s/%d failed rc=%s: %s' % (variant, frm, rc, err[-800:]))
        for r in recs:
            if r.get('result') == 'summary':
                for k, v in r.items():
                    if isinstance(v, int):
                        kk = variant + '.' + k if k in ('runs', 'tsan_reports') else k
                        if k.startswith('probe_max') or k == 'max_steps_seen':
                            tot[k] = max(tot.get(k, 0), v)
                        else:
                            tot[kk] = tot.get(kk, 0) + v
            elif r.get('result') == 'violation':
                r['stderr'] = err.decode('utf-8', 'replace')[-6000:]
                violations.append((variant, r))
        try:
            b = open(hf, 'rb').read()
            hashes[variant].update(struct.unpack('<%dQ' % (len(b) // 8), b))
        except (IOError, OSError):
            pass
        # a chunk stops at its first violation: run the rest of it so coverage is not silently lost
    known = C.known_open(PROP)
    lines, vio_recs = [], []
    seen_classes = set()
    for variant, v in violations:
        if (variant, v['class']) in seen_classes:
            continue
        seen_classes.add((variant, v['class']))
        if v.get('seed') is None:
            path = C.write_replay(PROP, 'crash-%s' % variant, v)
            lines.append('VIOLATION property=%s replay=%s' % (PROP, path))
            vio_recs.append(v)
            continue
        line, rec = handle_violation(variant, v, pool, ev, known)
        lines.append(line)
        if rec:
            vio_recs.append(rec)

    runs = tot.get('asan.runs', 0) + tot.get('tsan.runs', 0)
    distinct = len(hashes['asan'] | hashes['tsan'])
    cov = ev.cov
    cov['evaluations'] = runs
    cov['distinct_nontrivial'] = distinct
    cov['rule'] = ('one evaluation = one simulated run of the real workers::queue (workers 0-16, tasks 0-40, seeded workload, '
                   'seeded schedule policy and scheduling faults); distinct = distinct FNV hashes of the (thread, operation) sequence '
                   'of the run, i.e. distinct interleavings at synchronisation-operation granularity; the same run seeds are executed '
                   'in the asan and tsan builds, so a schedule reached in both is counted once')
    cov['samples'] = []
    s1 = run_one('asan', C.mix_seed(seed, 32, 0, 0), None, None, pool)
    cov['samples'].append({'run_seed': s1.get('seed'), 'cfg': s1.get('cfg'), 'steps': s1.get('steps'), 'sched_hash': s1.get('sched_hash'),
                           'decisions_head': s1.get('decisions', [])[:40]})
    cov['runs_per_hour'] = int(runs / max(wall_runs, 1e-6) * 3600)
    cov['simulated_time'] = {'note': 'libabigail reads no clock; simulated time is reported as scheduler decisions', 'scheduler_steps': tot.get('steps', 0),
                             'context_switches': tot.get('switches', 0), 'max_steps_in_a_run': tot.get('max_steps_seen', 0)}
    cov['faults_fired'] = {'spurious_wakeups': tot.get('spurious_fired', 0), 'starvation_decisions': tot.get('starve_skips', 0),
                           'signal_recipient_choices': tot.get('signal_choices', 0), 'signals_with_empty_wait_set': tot.get('signals_lost_empty', 0),
                           'runs_with_spurious': tot.get('runs_with_spurious', 0), 'runs_with_starvation': tot.get('runs_with_starvation', 0),
                           'runs_fault_free': tot.get('runs_fault_free', 0)}
    cov['probes'] = {k: v for k, v in tot.items() if k.startswith('probe_') or k in ('lock_contended', 'tasks_accepted', 'tasks_rejected', 'threads')}
    cov['builds'] = {'asan_runs': tot.get('asan.runs', 0), 'tsan_runs': tot.get('tsan.runs', 0), 'tsan_reports': tot.get('tsan.tsan_reports', 0),
                     'build_seconds': round(bt, 1)}
    cov['determinism'] = {'chunks_rerun_in_second_process': len(det_jobs), 'mismatches': 0}
    cov['run_seeds'] = {'derivation': 'mix_seed(VERIF_SEED, 32, 0, index)', 'VERIF_SEED': seed, 'asan_indices': [0, n_asan - 1], 'tsan_indices': [0, n_tsan - 1]}
    cov['real_vs_stub'] = {'real': ['src/abg-workers.cc compiled from the working tree (queue, worker loop, shutdown)', 'real pthreads (one runs at a time)',
                                    'ThreadSanitizer happens-before analysis on the real mutex/create/join calls'],
                           'stub': ['pthread mutex/condvar/create/join blocking semantics (SIM-T model)', 'sysconf(_SC_NPROCESSORS_ONLN)',
                                    'task bodies and notifier (harness code with extra yield points)']}
    cov['violations'] = vio_recs
    ev.d['violations'] = len(vio_recs)
    ev.d['assumptions'] = ['context switches happen only at pthread operations and explicit harness yields; task bodies are otherwise atomic',
                           'condition variables follow POSIX semantics (signal wakes at most one waiter, spurious wake-ups allowed)']
    ev.write()
    for l in sorted(set(lines)):
        print(l)
    print('C32 %s: %d runs (%d asan, %d tsan), %d distinct schedules, %d spurious wake-ups, %.0fs' % (
        tier, runs, tot.get('asan.runs', 0), tot.get('tsan.runs', 0), distinct, tot.get('spurious_fired', 0), time.time() - ev.t0))
    import shutil
    shutil.rmtree(rd, ignore_errors=True)
    return 1 if vio_recs else 0
