# Shared orchestration for all checks: building, parallel execution, seeds,
# known findings, evidence, violation reporting.  Standard library only.
import os, sys, json, time, subprocess, fcntl, hashlib, shutil, threading
from concurrent.futures import ThreadPoolExecutor

VERIF = os.path.dirname(os.path.dirname(os.path.abspath(__file__)))
REPO = os.environ.get('VERIF_REPO', '/repo')
BUILD = os.environ.get('VERIF_BUILD', os.path.join(VERIF, 'build'))
NCPU = int(os.environ.get('VERIF_JOBS', str(os.cpu_count() or 4)))
M64 = (1 << 64) - 1


class InfraError(Exception):
    pass


def verif_seed():
    try:
        return int(os.environ.get('VERIF_SEED', '1'))
    except ValueError:
        return 1


# ---- the same splitmix64 / xoshiro256** as sim/prng.h ----------------------
def _splitmix(x):
    x = (x + 0x9e3779b97f4a7c15) & M64
    z = x
    z = ((z ^ (z >> 30)) * 0xbf58476d1ce4e5b9) & M64
    z = ((z ^ (z >> 27)) * 0x94d049bb133111eb) & M64
    return x, z ^ (z >> 31)


def mix_seed(a, b, c, d):
    x = a & M64
    x, r = _splitmix(x)
    x ^= (b * 0x9e3779b97f4a7c15 + r) & M64
    x, r = _splitmix(x)
    x ^= (c * 0xc2b2ae3d27d4eb4f + r) & M64
    x, r = _splitmix(x)
    x ^= (d * 0x165667b19e3779f9 + r) & M64
    x, r = _splitmix(x)
    return r


class Prng:
    def __init__(self, seed):
        x = seed & M64
        self.s = []
        for _ in range(4):
            x, r = _splitmix(x)
            self.s.append(r)

    @staticmethod
    def _rotl(x, k):
        return ((x << k) | (x >> (64 - k))) & M64

    def next(self):
        s = self.s
        result = (self._rotl((s[1] * 5) & M64, 7) * 9) & M64
        t = (s[1] << 17) & M64
        s[2] ^= s[0]; s[3] ^= s[1]; s[1] ^= s[2]; s[0] ^= s[3]; s[2] ^= t
        s[3] = self._rotl(s[3], 45)
        return result

    def below(self, n):
        return 0 if n <= 1 else self.next() % n

    def range(self, lo, hi):
        return lo + self.below(hi - lo + 1)

    def chance(self, num, den):
        return self.below(den) < num

    def choice(self, seq):
        return seq[self.below(len(seq))]

    def sample(self, seq, k):
        seq = list(seq)
        out = []
        for _ in range(min(k, len(seq))):
            out.append(seq.pop(self.below(len(seq))))
        return out

    def shuffle(self, seq):
        for i in range(len(seq) - 1, 0, -1):
            j = self.below(i + 1)
            seq[i], seq[j] = seq[j], seq[i]


# ---- building ---------------------------------------------------------------
def build(variant, targets, quiet=True):
    """(Re)build simulator executables from REPO's current working tree."""
    os.makedirs(BUILD, exist_ok=True)
    lock = open(os.path.join(BUILD, '.lock'), 'w')
    fcntl.flock(lock, fcntl.LOCK_EX)
    try:
        cmd = ['make', '-s', '-C', VERIF, '-j%d' % NCPU, 'VARIANT=' + variant, 'REPO=' + REPO, 'BUILD=' + BUILD] + list(targets)
        t0 = time.time()
        p = subprocess.run(cmd, stdout=subprocess.PIPE, stderr=subprocess.STDOUT, universal_newlines=True)
        if p.returncode != 0:
            sys.stderr.write(p.stdout[-8000:])
            raise InfraError('build failed: ' + ' '.join(cmd))
        return time.time() - t0
    finally:
        fcntl.flock(lock, fcntl.LOCK_UN)
        lock.close()


def exe(variant, name):
    return os.path.join(BUILD, variant, name)


# ---- running ----------------------------------------------------------------
def run_cmd(cmd, timeout=None, stdin=None, env=None, cwd=None):
    try:
        p = subprocess.run(cmd, stdout=subprocess.PIPE, stderr=subprocess.PIPE, timeout=timeout, input=stdin, env=env, cwd=cwd)
        return p.returncode, p.stdout, p.stderr
    except subprocess.TimeoutExpired as e:
        return -999, e.stdout or b'', e.stderr or b''


def pmap(fn, items, jobs=None):
    with ThreadPoolExecutor(max_workers=jobs or NCPU) as ex:
        return list(ex.map(fn, items))


# ---- known findings ---------------------------------------------------------
def load_known():
    p = os.path.join(VERIF, 'known_findings.json')
    if not os.path.exists(p):
        return []
    return json.load(open(p)).get('findings', [])


def known_open(prop):
    """key -> entry for findings of this property that are still open."""
    return {f['key']: f for f in load_known() if f['property'] == prop and f.get('status') == 'open'}


def known_inputs(prop):
    """point id -> listed site, for the closed-space checks (committed, never written at run time)"""
    import gzip
    p = os.path.join(VERIF, 'known_inputs', prop + '.json.gz')
    if not os.path.exists(p):
        return {}
    with gzip.open(p, 'rt') as f:
        return json.load(f)


# ---- reporting --------------------------------------------------------------
def run_dir(tag):
    """A private scratch directory whose *path* is the same from one invocation to the next (slot 00 unless another
    instance of the same check is running): paths leak into string hashes and heap layouts, and a replay in a fresh
    process should see the very paths the original run saw."""
    base = os.path.join(BUILD, 'run')
    os.makedirs(base, exist_ok=True)
    tag = tag[:10].ljust(10, '_')
    for slot in range(100):
        d = os.path.join(base, '%s-s%02d' % (tag, slot))
        try:
            os.mkdir(d)
        except FileExistsError:
            try:
                pid = int(open(os.path.join(d, '.pid')).read())
                os.kill(pid, 0)
                continue            # owned by a live process
            except (IOError, ValueError, ProcessLookupError):
                shutil.rmtree(d, ignore_errors=True)
                try:
                    os.mkdir(d)
                except FileExistsError:
                    continue
            except PermissionError:
                continue
        open(os.path.join(d, '.pid'), 'w').write(str(os.getpid()))
        return d
    raise InfraError('no free run-directory slot for ' + tag)


def replay_dir():
    d = os.path.join(BUILD, 'replay')
    os.makedirs(d, exist_ok=True)
    return d


def write_replay(prop, name, obj):
    path = os.path.join(replay_dir(), '%s-%s.json' % (prop, name))
    with open(path, 'w') as f:
        json.dump(obj, f, indent=1, sort_keys=True)
    return path


REAL_STUB = {
    'real': ['every line of /repo/src and /repo/tools that the scenario links (compiled from the current working tree)',
             'libxml2, zlib, elfutils, libstdc++, glibc stdio', 'kernel file system under /verif/build/run'],
    'stub': []}


class Evidence:
    def __init__(self, prop, level, tier, seed):
        self.d = {'property_id': prop, 'tier': tier, 'seed': seed, 'level': level,
                  'coverage': {'evaluations': 0, 'distinct_nontrivial': 0, 'rule': '', 'samples': []},
                  'assumptions': [], 'wall_s': 0.0, 'violations': 0}
        self.t0 = time.time()

    @property
    def cov(self):
        return self.d['coverage']

    def write(self):
        self.d['wall_s'] = round(time.time() - self.t0, 2)
        # evidence describes /repo itself; runs against a scratch tree (VERIF_REPO) keep theirs with their build
        edir = os.path.join(VERIF, 'evidence') if os.path.realpath(REPO) == '/repo' else os.path.join(BUILD, 'evidence')
        os.makedirs(edir, exist_ok=True)
        p = os.path.join(edir, self.d['property_id'] + '.json')
        tmp = p + '.tmp%d' % os.getpid()
        with open(tmp, 'w') as f:
            json.dump(self.d, f, indent=1, sort_keys=True)
        os.replace(tmp, p)


def sha(b):
    return hashlib.sha256(b).hexdigest()


def ddmin(items, test):
    """Classic ddmin: smallest sub-list (order preserved) for which test() stays true."""
    n = 2
    items = list(items)
    while len(items) >= 2:
        chunk = max(1, len(items) // n)
        subsets = [items[i:i + chunk] for i in range(0, len(items), chunk)]
        reduced = False
        for i in range(len(subsets)):
            comp = [x for j, s in enumerate(subsets) if j != i for x in s]
            if test(comp):
                items = comp
                n = max(n - 1, 2)
                reduced = True
                break
        if not reduced:
            if n >= len(items):
                break
            n = min(len(items), n * 2)
    if len(items) == 1 and test([]):
        return []
    return items
