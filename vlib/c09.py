# C09 - an input that cannot be loaded is never reported as "no change".
# Crash-restart simulation: abidw is crashed by the simulator at a seeded write
# call / byte offset while producing a document (or a stored intact document
# suffers one media fault, or a read fails); the surviving image is then given
# to abidiff / abicompat ("restart").  An independent judge (libxml2's own DOM
# parser, called from the harness) decides whether the image can be loaded at
# all; if not, the exit status must carry the error bit.
import os, json, ctypes, threading
from . import common as C, fcheck as F, c36

PROP = 'C09'
LEVEL = 'fault_enumeration'
VARIANT = 'plain'
TOOLS = [('plain', 'abidw'), ('plain', 'abidiff'), ('plain', 'abicompat')]
EIO = 5
DOCS = ['tiny_v0', 'shapes_v0', 'shapes_v1', 'alias_v1', 'cxx_v1', 'libtest23', 'ktree_v1', 'tu:test10', 'tu:test18', 'grp:shapes-tiny', 'grp:three']     # ktree_v1: the corpus group abidw --linux-tree writes for the stand-in kernel tree
TU_DOCS = {'tu:test10': 'tests/data/test-read-write/test10.xml', 'tu:test18': 'tests/data/test-read-write/test18.xml',   # abi-instr (translation unit) documents
           'grp:shapes-tiny': '@DATA@/abixml/group-shapes-tiny.xml', 'grp:three': '@GEN@'}   # abi-corpus-group documents (abidw only writes them for kernels)
ASSUMPTIONS = ['"cannot be loaded" is decided by libxml2\'s DOM parser run by the harness (not by libabigail): not well-formed up to the root end tag, '
               'or root element not abi-corpus/abi-corpus-group/abi-instr, or empty/missing, or a read returned EIO/early EOF',
               'damage that leaves a well-formed ABI document is exempt here (memory safety of such inputs is C33)',
               'a restart command that dies by signal or assertion is not judged here (counted under outcomes; that is C33)']

_xml = None
_xml_lock = threading.Lock()


def loadable(buf):
    """True if buf is a well-formed XML document whose root is an ABI element (judged by libxml2, independently of libabigail)."""
    global _xml
    if not buf:
        return False
    with _xml_lock:
        if _xml is None:
            _xml = ctypes.CDLL('libxml2.so.2')
            _xml.xmlReadMemory.restype = ctypes.c_void_p
            _xml.xmlReadMemory.argtypes = [ctypes.c_char_p, ctypes.c_int, ctypes.c_char_p, ctypes.c_char_p, ctypes.c_int]
            _xml.xmlDocGetRootElement.restype = ctypes.c_void_p
            _xml.xmlDocGetRootElement.argtypes = [ctypes.c_void_p]
            _xml.xmlFreeDoc.argtypes = [ctypes.c_void_p]
            _xml.xmlInitParser()
        doc = _xml.xmlReadMemory(buf, len(buf), b'doc.xml', None, 32 | 64 | 2048)   # NOERROR | NOWARNING | NONET, no RECOVER
        if not doc:
            return False
        try:
            root = _xml.xmlDocGetRootElement(doc)
            if not root:
                return False
            name_ptr = ctypes.cast(root + 16, ctypes.POINTER(ctypes.c_char_p))[0]
            return name_ptr in (b'abi-corpus', b'abi-corpus-group', b'abi-instr')
        finally:
            _xml.xmlFreeDoc(doc)


CMDS = ['abidiff-dmg-intact', 'abidiff-intact-dmg', 'abidiff-dmg-elf', 'abidiff-elf-dmg', 'abicompat-lib1', 'abicompat-lib2', 'abicompat-app', 'abicompat-weak-lib', 'abicompat-weak-app', 'abicompat-lib1-nodeps', 'abicompat-lib2-nodeps', 'abicompat-weak-lib-nodeps']     # nodeps: an application without undefined symbols


def make_items(ctx, only=None):
    items = {}
    libs = c36.all_libs(ctx.libs)
    libs['shapes_v1'] = ctx.libs['shapes_v1']
    c36_all = c36.all_libs

    def doc(name):
        key = ('doc', name)
        if key not in ctx.memo:
            t = abidw_template(ctx, libs, name)
            o = ctx.run('abidw', t)
            if o.klass != ('exit', 0) or not o.stdout:
                raise C.InfraError('could not produce the workload document for %s' % name)
            d = os.path.join(ctx.rundir, 'docs'); os.makedirs(d, exist_ok=True)
            p = os.path.join(d, name + '.abi'); open(p, 'wb').write(o.stdout)
            ctx.memo[key] = (p, o)
        return ctx.memo[key]

    for name in DOCS:
        if only and name != only:
            continue
        if name in TU_DOCS:
            if TU_DOCS[name] == '@GEN@':
                # a three-corpus group assembled from pool documents
                parts = [open(doc(n)[0], 'rb').read().decode().replace('type-id-', 'type-id-%s' % 'abc'[i]) for i, n in enumerate(('tiny_v0', 'shapes_v0', 'alias_v1'))]   # ids unique across the group
                ind = lambda t: ''.join('  ' + l + '\n' for l in t.splitlines())
                d = os.path.join(ctx.rundir, 'docs'); os.makedirs(d, exist_ok=True)
                p = os.path.join(d, 'group-three.xml')
                open(p, 'w').write("<abi-corpus-group version='2.1' architecture='elf-amd-x86_64'>\n" + ''.join(ind(x) for x in parts) + "</abi-corpus-group>\n")
            elif TU_DOCS[name].startswith('@DATA@'):
                p = TU_DOCS[name].replace('@DATA@', os.path.join(C.VERIF, 'pool', 'data'))
            else:
                p = os.path.join(C.REPO, TU_DOCS[name])
            body = open(p, 'rb').read()
            if not loadable(body):
                raise C.InfraError('the intact workload document %s is not loadable according to the judge' % name)
            it = {'name': name, 'doc': p, 'body': body, 'elf': libs['shapes_v0'], 'W': 1, 'app': ctx.libs['app'], 'app_nodeps': ctx.libs['app_nodeps'], 'other': doc('shapes_v1')[0], 'tu': True}
            o = ctx.run('abidiff', restart_template(it, 'abidiff-dmg-intact', p, track=True))
            it['R'] = o.res['simf']['objects'][0]['reads']
            if o.exit != 0:
                raise C.InfraError('abidiff of intact %s against itself is not clean (exit %s)' % (name, o.exit))
            items[name] = it
            continue
        p, ref = doc(name)
        body = open(p, 'rb').read()
        if not loadable(body):
            raise C.InfraError('the intact workload document %s is not loadable according to the judge' % name)
        it = {'name': name, 'doc': p, 'body': body, 'elf': libs[name] if name in libs else libs['shapes_v0'], 'W': ref.res['simf']['objects'][0]['writes'],
              'app': ctx.libs['app'], 'app_nodeps': ctx.libs['app_nodeps'], 'other': doc('shapes_v1' if name != 'shapes_v1' else 'shapes_v0')[0]}
        # fault-free reads of the intact document by each restart command: number of read calls on it
        o = ctx.run('abidiff', restart_template(it, 'abidiff-dmg-intact', p, track=True))
        it['R'] = o.res['simf']['objects'][0]['reads']
        if o.exit != 0:
            raise C.InfraError('abidiff of intact %s against itself is not clean (exit %s)' % (name, o.exit))
        items[name] = it
    return items


def abidw_template(ctx, libs, name):
    if name.startswith('ktree'):
        return {'argv': ['abidw', '--linux-tree', ctx.libs[name]], 'simf': {'objects': [{'fd': 1}], 'faults': []}}
    return c36.template('abidw', 'stdout', libs[name])[0]


def restart_template(it, cmd, dmg, track=False, faults=None):
    if cmd == 'abidiff-dmg-intact':
        tool, argv = 'abidiff', ['abidiff', dmg, it['doc']]
    elif cmd == 'abidiff-intact-dmg':
        tool, argv = 'abidiff', ['abidiff', it['doc'], dmg]
    elif cmd == 'abidiff-dmg-elf':
        tool, argv = 'abidiff', ['abidiff', dmg, it['elf']]
    elif cmd == 'abidiff-elf-dmg':
        tool, argv = 'abidiff', ['abidiff', it['elf'], dmg]
    elif cmd == 'abicompat-lib1':
        tool, argv = 'abicompat', ['abicompat', it['app'], dmg, it['other']]
    elif cmd == 'abicompat-lib1-nodeps':
        tool, argv = 'abicompat', ['abicompat', it['app_nodeps'], dmg, it['other']]
    elif cmd == 'abicompat-lib2-nodeps':
        tool, argv = 'abicompat', ['abicompat', it['app_nodeps'], it['other'], dmg]
    elif cmd == 'abicompat-weak-lib-nodeps':
        tool, argv = 'abicompat', ['abicompat', '--weak-mode', it['app_nodeps'], dmg]
    elif cmd == 'abicompat-app':
        tool, argv = 'abicompat', ['abicompat', dmg, it['other'], it['other']]
    elif cmd == 'abicompat-weak-lib':
        tool, argv = 'abicompat', ['abicompat', '--weak-mode', it['app'], dmg]
    elif cmd == 'abicompat-weak-app':
        tool, argv = 'abicompat', ['abicompat', '--weak-mode', dmg, it['other']]
    else:
        tool, argv = 'abicompat', ['abicompat', it['app'], it['other'], dmg]
    t = {'argv': argv, '_tool': tool}
    if track or faults:
        t['simf'] = {'objects': [{'path': dmg}], 'faults': faults or []}
    return t


def damage(body, p):
    """media fault on a stored image (pure function of the parameters)"""
    kind, off = p['kind'], p['offset']
    b = bytearray(body)
    off = min(off, max(len(b) - 1, 0))
    if kind == 'truncate':
        return bytes(b[:off])
    if kind == 'bitflip':
        b[off] ^= 1 << p['bit']
    elif kind in ('zero-run', 'ff-run'):
        n = p['len']
        b[off:off + n] = (b'\x00' if kind == 'zero-run' else b'\xff') * len(b[off:off + n])
    elif kind == 'misdirected':
        n = p['len']; src = p['src'] % max(len(b) - n, 1)
        b[off:off + n] = b[src:src + len(b[off:off + n])]
    return bytes(b)


def crash_model(img, model):
    if model == 'process':
        return img
    if model == 'empty':
        return b''
    sector = 512 if model.endswith('512') else 4096
    keep = (len(img) // sector) * sector
    if model.startswith('power'):
        return img[:keep]
    if model.startswith('zero-tail'):      # size extended, last sector never reached the medium
        return img[:keep] + b'\x00' * (len(img) - keep)
    return img


def gen_params(rng, it, tier):
    n = len(it['body'])
    src = rng.choice(['crash', 'crash', 'crash', 'media', 'media', 'special', 'readfault'])
    if it.get('tu') and src == 'crash':
        src = 'media'        # translation-unit documents are not produced by abidw: stored-image faults only
    cmd = rng.choice(CMDS)
    p = {'cmd': cmd, 'source': src}
    if src == 'crash':
        k = rng.below(it['W'])
        # bias the byte offset to boundaries: call boundary, line end, inside a tag/attribute, first and last 64 bytes
        mode = rng.below(5)
        j = 0 if mode == 0 else rng.range(1, 64) if mode == 1 else rng.range(4032, 4096) if mode == 2 else rng.range(0, 4096)
        p.update({'k': k, 'bytes': j, 'model': rng.choice(['process', 'process', 'power-512', 'power-4096', 'zero-tail-512', 'zero-tail-4096', 'empty'])})
    elif src == 'media':
        kind = rng.choice(['truncate', 'bitflip', 'zero-run', 'ff-run', 'misdirected'])
        root_end = it['body'].rfind(b'</')
        p.update({'kind': kind, 'offset': rng.below(max(root_end, 1)), 'bit': rng.below(8), 'len': rng.choice([1, 8, 64, 512]), 'src': rng.below(n)})
    elif src == 'special':
        p.update({'what': rng.choice(['empty', 'random', 'text', 'missing', 'elf-prefix', 'xml-not-abi', 'elf-half', 'elf-1k', 'elf-no-sections', 'elf-half', 'elf-no-sections'])})
    else:
        p.update({'k': rng.below(max(it['R'], 1)), 'fault': rng.choice(['eio', 'eof']), 'cmd': rng.choice(CMDS[:2])})
    return p


def make_plans(ctx, tier, items):
    plans = []
    names = sorted(items)
    n = 2400 if tier == 'quick' else 40000
    for i in range(n):
        rng = C.Prng(C.mix_seed(ctx.seed, 9, 0, i))
        it = items[rng.choice(names)]
        plans.append({'item': it['name'], 'params': gen_params(rng, it, tier)})
    if tier == 'thorough':
        # every byte prefix of the two smallest documents, both argument orders (the property's own quantifier)
        for name in ('tiny_v0', 'shapes_v0'):
            if name in items:
                for off in range(len(items[name]['body'])):
                    for cmd in CMDS[:2]:
                        plans.append({'item': name, 'params': {'cmd': cmd, 'source': 'media', 'kind': 'truncate', 'offset': off, 'bit': 0, 'len': 1, 'src': 0}})
    return plans


def execute(ctx, it, p):
    src = p['source']
    fired, sites = [], []
    unloadable_reason = None
    faults = None
    step1 = None
    if src == 'crash':
        t = abidw_template(ctx, {it['name']: it['elf']}, it['name'])
        t['simf']['faults'] = [{'obj': 0, 'op': 'write', 'k': p['k'], 'kind': 'crash', 'bytes': p['bytes']}]
        o1 = ctx.run('abidw', t)
        if not o1.res.get('simf', {}).get('crashed'):
            # the crash point lies beyond the last write: the document is complete
            img = o1.stdout or b''
        else:
            img = o1.stdout or b''
            fired.append('crash/' + p['model'])
        step1 = {'crashed': bool(o1.res.get('simf', {}).get('crashed')), 'bytes_survived_process': len(img)}
        img = crash_model(img, p['model'])
        sites.append((it['name'], 'crash', p['model'], len(img), p['cmd']))
    elif src == 'media':
        img = damage(it['body'], p)
        fired.append('media/' + p['kind'])
        sites.append((it['name'], 'media', p['kind'], p['offset'], p.get('bit') if p['kind'] == 'bitflip' else p.get('len'), p['cmd']))
    elif src == 'special':
        w = p['what']
        img = {'empty': b'', 'random': bytes((i * 197 + 13) & 0xff for i in range(600)), 'text': b'hello, this is not an ABI document\n' * 20,
               'missing': None, 'elf-prefix': open(it['elf'], 'rb').read(300),
               # ELF images that cannot be loaded by construction: the section header table (at the end of the file) is cut off or disowned
               'elf-half': open(it['elf'], 'rb').read(os.path.getsize(it['elf']) // 2), 'elf-1k': open(it['elf'], 'rb').read(1024),
               'elf-no-sections': (lambda b: b[:60] + b'\x00\x00' + b[62:])(open(it['elf'], 'rb').read()),
               'xml-not-abi': b"<?xml version='1.0'?>\n<html><body>not an abi document</body></html>\n"}[w]
        fired.append('special/' + w)
        sites.append((it['name'], 'special', w, p['cmd']))
    else:
        img = it['body']
        faults = [{'obj': 0, 'op': 'read', 'k': p['k'], 'kind': 'error' if p['fault'] == 'eio' else 'eof', 'errno': EIO}]
    if img is None:
        unloadable_reason = 'missing file'
    elif src != 'readfault' and not loadable(img):
        unloadable_reason = 'not a well-formed ABI document (%d bytes)' % len(img)

    dmg_name = 'damaged.abi'

    def prepare(run):
        if img is not None:
            open(os.path.join(run, dmg_name), 'wb').write(img)

    t = restart_template(it, p['cmd'], '@RUN@/' + dmg_name, faults=faults)
    tool = t.pop('_tool')
    o = ctx.run(tool, t, prepare=prepare)
    sf = o.res.get('simf', {})
    if src == 'readfault':
        if any(sf.get('fired', [])):
            fired.append('read/' + p['fault'])
            sites.append((it['name'], 'read', p['fault'], p['k'], p['cmd']))
            # an early EOF at k=0.. leaves a prefix; EIO is an outright failed read.  Either way the document did not load completely
            # unless everything had been delivered before the fault (EOF after the last byte is the normal end of file).
            delivered = (sf.get('objects') or [{}])[0].get('bytes_r', 0)
            if p['fault'] == 'eio' or delivered < len(it['body']):
                unloadable_reason = 'read fault %s at read #%d after %d of %d bytes' % (p['fault'], p['k'], delivered, len(it['body']))
    verdict = None
    if unloadable_reason and o.klass[0] == 'exit':
        if o.exit == 0 or not (o.exit & 1):
            verdict = ('unreadable-input-accepted', '%s: exit status %d for an input that cannot be loaded (%s)' % (p['cmd'], o.exit, unloadable_reason))
    key = None
    if verdict:
        kind = src if src != 'media' else 'media'
        key = '%s:%s:%s' % (verdict[0], p['cmd'], kind)
    return F.Result(verdict, key, fired, sites, digest=(o.exit, o.signal, sf.get('io_hash'), C.sha(img or b'')),
                    info={'exit': o.exit, 'unloadable': unloadable_reason, 'image_bytes': None if img is None else len(img), 'step1': step1},
                    io_events=sf.get('io_events', 0), outcome=o.status_key() + ('|unloadable' if unloadable_reason else '|loadable'))


def plan_size(plan):
    p = plan['params']
    return (0 if p['source'] == 'media' and p['kind'] == 'truncate' else 1, p.get('offset', p.get('k', 0)))


def shrink(ctx, it, p):
    if p['source'] == 'crash':
        if p['model'] != 'process':
            yield dict(p, model='process')
        if p['bytes']:
            yield dict(p, bytes=0)
        if p['k']:
            yield dict(p, k=p['k'] // 2)
    elif p['source'] == 'media' and p['kind'] != 'truncate':
        yield dict(p, kind='truncate')
    if p['cmd'] not in ('abidiff-dmg-intact',) and p['source'] != 'readfault':
        yield dict(p, cmd='abidiff-dmg-intact')


def describe(ctx, cov, items, plans, results):
    cov['rule'] = ('one evaluation = one crash-restart history: (a) abidw crashed by the simulator at write call k after j bytes, the surviving image derived under a crash '
                   'model (process crash, power loss with 512 B / 4 KiB sectors, zero tail, empty), or one media fault on a stored document, or a special file, or a read fault '
                   '(EIO / early EOF) on an intact document; (b) the restart command abidiff/abicompat with the image in one argument position.  distinct = distinct '
                   '(document, fault kind, position/size of the surviving image, restart command)')
    cov['documents'] = {n: {'bytes': len(it['body']), 'abidw_stdout_write_calls': it['W'], 'abidiff_read_calls': it['R']} for n, it in items.items()}
    unl = sum(1 for r in results if r.outcome.endswith('|unloadable'))
    cov['probes'] = {'histories_with_unloadable_image': unl, 'histories_with_loadable_image': len(results) - unl,
                     'crash_left_complete_document': sum(1 for r in results if r.info.get('step1') and not r.info['step1']['crashed'])}
    cov['real_vs_stub'] = {'real': ['tools/abidw.cc (step 1), tools/abidiff.cc and tools/abicompat.cc (step 2), src/abg-reader.cc, libxml2 reader, compiled from the working tree'],
                           'stub': ['the crash instant and the bytes that reached the file (SIM-F)', 'crash models applied to the surviving image', 'results of read() on the document (EIO/EOF faults)'],
                           'judge': 'libxml2 xmlReadMemory via ctypes in the harness process'}


def check(tier):
    return F.run_check(__import__('vlib.c09', fromlist=['x']), tier)


def replay_file(path, quiet=False):
    return F.replay_file(__import__('vlib.c09', fromlist=['x']), path, quiet)
