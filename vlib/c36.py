# C36 - abidw and abilint exit non-zero whenever the ABIXML they produce could
# not be written completely (stdout or --out-file; any write/close failure at
# any point).  SIM-F: write-side faults attached to the k-th write-class call
# on the simulated output object.
import os, json
from . import common as C, fcheck as F

PROP = 'C36'
LEVEL = 'fault_enumeration'
VARIANT = 'plain'   # exit-status property: the un-sanitised build runs 3x more fault points per second
TOOLS = [('plain', 'abidw'), ('plain', 'abilint')]
ENOSPC, EIO, EDQUOT, EFBIG, EACCES = 28, 5, 122, 27, 13
LIBS = ['tiny_v0', 'shapes_v0', 'alias_v1', 'cxx_v1', 'cxx_clang_v0']
# mid-size workload taken in place from the repository's test data (13 to 70 stdout write calls each)
REPO_LIBS = {'libtest23': 'tests/data/test-read-dwarf/libtest23.so',
             'libgdbm-clang-dwarf5': 'tests/data/test-read-dwarf/PR25042-libgdbm-clang-dwarf5.so.6.0.0',
             'libaaudio': 'tests/data/test-read-dwarf/test-libaaudio.so',
             'libboost_iostreams': 'tests/data/test-read-dwarf/PR22015-libboost_iostreams.so'}
ASSUMPTIONS = ['single output object per run; faults are attached to call indices of the fault-free run',
               'a run that dies by signal or sanitizer report is not judged here (counted under outcomes)',
               'the tool leaves through exit(), so the stdio at-exit flush is part of every run']


def all_libs(libs):
    d = {n: libs[n] for n in LIBS}
    for n, rel in REPO_LIBS.items():
        d[n] = os.path.join(C.REPO, rel)
    return d


def template(tool, dest, inp):
    if dest == 'stdout':
        return {'argv': [tool, inp], 'simf': {'objects': [{'fd': 1}], 'faults': []}}, None
    return {'argv': [tool, '--out-file', '@RUN@/out.abi', inp], 'simf': {'objects': [{'path': '@RUN@/out.abi'}], 'faults': []}}, 'out.abi'


def with_faults(t, faults):
    t = json.loads(json.dumps(t))
    t['simf']['faults'] = faults
    return t


def dest_bytes(o, collect):
    return o.files.get(collect) if collect else o.stdout


def document(ctx, name):
    """the ABIXML document abidw produces for a pool library (fault-free), cached on disk for the check's lifetime"""
    key = ('doc', name)
    if key not in ctx.memo:
        t, _ = template('abidw', 'stdout', all_libs(ctx.libs)[name])
        o = ctx.run('abidw', t)
        if o.klass != ('exit', 0) or not o.stdout:
            raise C.InfraError('could not produce the workload document for %s: %s %s' % (name, o.klass, (o.stderr or b'')[-300:]))
        d = os.path.join(ctx.rundir, 'docs')
        os.makedirs(d, exist_ok=True)
        p = os.path.join(d, name + '.abi')
        open(p, 'wb').write(o.stdout)
        ctx.memo[key] = p
    return ctx.memo[key]


def make_items(ctx, only=None):
    items = {}
    libs = all_libs(ctx.libs)
    for name in sorted(libs):
        for tool, dest in (('abidw', 'stdout'), ('abidw', 'file'), ('abilint', 'stdout')):
            iname = '%s/%s/%s' % (tool, dest, name)
            if only and iname != only:
                continue
            inp = libs[name] if tool == 'abidw' else document(ctx, name)
            t, collect = template(tool, dest, inp)
            ref = ctx.run(tool, t, collect=[collect] if collect else [])
            if ref.klass != ('exit', 0) or not dest_bytes(ref, collect):
                raise C.InfraError('fault-free reference run failed for %s: %s %s' % (iname, ref.klass, (ref.stderr or b'')[-300:]))
            items[iname] = {'name': iname, 'tool': tool, 'dest': dest, 'template': t, 'collect': collect, 'ref': ref,
                            'W': ref.res['simf']['objects'][0]['writes']}
    # abidw's third output path: the corpus group of a (stand-in) Linux kernel tree, written by write_corpus_group
    for dest in ('stdout', 'file'):
        iname = 'abidw/%s/linux-tree' % dest
        if only and iname != only:
            continue
        if dest == 'stdout':
            t, collect = {'argv': ['abidw', '--linux-tree', ctx.libs['ktree_v1']], 'simf': {'objects': [{'fd': 1}], 'faults': []}}, None
        else:
            t, collect = {'argv': ['abidw', '--out-file', '@RUN@/out.abi', '--linux-tree', ctx.libs['ktree_v1']], 'simf': {'objects': [{'path': '@RUN@/out.abi'}], 'faults': []}}, 'out.abi'
        ref = ctx.run('abidw', t, collect=[collect] if collect else [])
        if ref.klass != ('exit', 0) or b'abi-corpus-group' not in (dest_bytes(ref, collect) or b''):
            raise C.InfraError('fault-free reference run failed for %s: %s %s' % (iname, ref.klass, (ref.stderr or b'')[-300:]))
        items[iname] = {'name': iname, 'tool': 'abidw', 'dest': dest, 'template': t, 'collect': collect, 'ref': ref, 'W': ref.res['simf']['objects'][0]['writes']}
    # abilint's other output paths: translation-unit and corpus-group documents, and the --stdin variants
    fx = os.path.join(C.VERIF, 'pool', 'data', 'abixml')
    fx2 = os.path.join(C.VERIF, 'pool', 'data', 'abixml-extra')     # legal but unusual documents: groups and corpora with nothing in them (one line of output)
    cases = [('tu', 'tu-test18.xml', []), ('group', 'group-shapes-tiny.xml', []), ('stdin-corpus', 'fnptr_v0.abi', ['--stdin']), ('stdin-tu', 'tu-test18.xml', ['--stdin', '--tu'])]
    cases += [('extra-' + f[:-4], os.path.join(fx2, f), []) for f in sorted(os.listdir(fx2))]
    cases += [('stdin-extra-' + f[:-4], os.path.join(fx2, f), ['--stdin']) for f in sorted(os.listdir(fx2)) if 'group' not in f]
    for label, doc, extra in cases:
        iname = 'abilint/stdout/%s' % label
        if only and iname != only:
            continue
        path = os.path.join(fx, doc)
        if extra:
            t = {'argv': ['abilint'] + extra, 'stdin': path, 'simf': {'objects': [{'fd': 1}], 'faults': []}}
        else:
            t = {'argv': ['abilint', path], 'simf': {'objects': [{'fd': 1}], 'faults': []}}
        ref = ctx.run('abilint', t)
        if ref.klass != ('exit', 0) or not ref.stdout:
            raise C.InfraError('fault-free reference run failed for %s: %s %s' % (iname, ref.klass, (ref.stderr or b'')[-300:]))
        items[iname] = {'name': iname, 'tool': 'abilint', 'dest': 'stdout', 'template': t, 'collect': None, 'ref': ref, 'W': ref.res['simf']['objects'][0]['writes']}
    return items


def plan_faults(rng, kind, W):
    k = rng.below(max(W, 1))
    if kind in ('enospc', 'edquot', 'efbig'):
        return [{'obj': 0, 'op': 'write', 'k': k, 'kind': 'error', 'errno': {'enospc': ENOSPC, 'edquot': EDQUOT, 'efbig': EFBIG}[kind], 'sticky': 1}]
    if kind == 'eio-once':
        return [{'obj': 0, 'op': 'write', 'k': k, 'kind': 'error', 'errno': EIO, 'sticky': 0}]
    if kind == 'short-ok':
        ks = sorted(set(rng.below(max(W, 1)) for _ in range(rng.range(1, 3))))
        return [{'obj': 0, 'op': 'write', 'k': kk, 'kind': 'short', 'bytes': rng.range(1, 5000)} for kk in ks]
    if kind == 'short-then-enospc':
        return [{'obj': 0, 'op': 'write', 'k': k, 'kind': 'short', 'bytes': rng.range(1, 5000)},
                {'obj': 0, 'op': 'write', 'k': k + 1, 'kind': 'error', 'errno': ENOSPC, 'sticky': 1}]
    if kind in ('close-eio', 'close-enospc'):
        return [{'obj': 0, 'op': 'close', 'k': 0, 'kind': 'error', 'errno': EIO if kind == 'close-eio' else ENOSPC}]
    if kind == 'open-fail':
        return [{'obj': 0, 'op': 'open', 'k': 0, 'kind': 'error', 'errno': rng.choice([ENOSPC, EACCES, EIO])}]
    return []


KINDS_STDOUT = ['enospc', 'edquot', 'efbig', 'eio-once', 'short-ok', 'short-then-enospc', 'none']
KINDS_FILE = KINDS_STDOUT + ['close-eio', 'close-enospc', 'open-fail']


def make_plans(ctx, tier, items):
    plans = []
    names = sorted(items)
    if tier == 'quick':
        for i in range(3000):
            rng = C.Prng(C.mix_seed(ctx.seed, 36, 0, i))
            it = items[rng.choice(names)]
            kind = rng.choice(KINDS_FILE if it['dest'] == 'file' else KINDS_STDOUT)
            plans.append({'item': it['name'], 'params': {'kind': kind, 'faults': plan_faults(rng, kind, it['W'])}})
        return plans
    i = 0
    for n in names:
        it = items[n]
        for kind in (KINDS_FILE if it['dest'] == 'file' else KINDS_STDOUT):
            ks = range(it['W']) if kind in ('enospc', 'eio-once', 'short-then-enospc', 'edquot', 'efbig', 'short-ok') else [0]
            for k in ks:                      # the property's own quantifier: every k
                rng = C.Prng(C.mix_seed(ctx.seed, 36, 1, i)); i += 1
                fl = plan_faults(rng, kind, it['W'])
                if kind in ('enospc', 'edquot', 'efbig', 'eio-once'):
                    fl[0]['k'] = k
                elif kind == 'short-then-enospc':
                    fl[0]['k'], fl[1]['k'] = k, k + 1
                elif kind == 'short-ok':
                    fl = [dict(fl[0], k=k)]
                plans.append({'item': n, 'params': {'kind': kind, 'faults': fl}})
    return plans


def execute(ctx, it, params):
    fl = params['faults']
    collect = it['collect']
    o = ctx.run(it['tool'], with_faults(it['template'], fl), collect=[collect] if collect else [])
    ref = it['ref']
    sf = o.res.get('simf', {})
    firedv = sf.get('fired', [])
    illegal = any(f and fl[j]['kind'] != 'short' for j, f in enumerate(firedv))
    got, want = dest_bytes(o, collect), dest_bytes(ref, collect)
    inj_err = any(ob.get('failed_ops', 0) for ob in sf.get('objects', []))
    complete = (got == want) and not inj_err
    verdict = None
    if o.klass[0] == 'exit':
        if not complete and o.exit == 0:
            verdict = ('silent-write-failure', 'output incomplete (%s of %d bytes present%s) but exit status 0' % (
                'none' if got is None else len(got), len(want or b''), ', an injected error was returned to the tool' if inj_err else ''))
        elif not illegal and (not complete or o.exit != ref.exit):
            verdict = ('legal-fault-changed-outcome', 'only short writes were injected, yet output or status differ (exit %s vs %s)' % (o.exit, ref.exit))
    fired, sites = [], []
    for j, f in enumerate(firedv):
        if f:
            x = fl[j]
            fired.append('%s/%s%s%s' % (x['op'], x['kind'], '-sticky' if x.get('sticky') else '', ':errno%d' % x['errno'] if 'errno' in x else ''))
            sites.append((it['name'], x['op'], x['kind'], x.get('errno', 0), x['k']))
    key = None
    if verdict:
        first = next((fl[j] for j, f in enumerate(firedv) if f and fl[j]['kind'] != 'short'), fl[0] if fl else {'op': 'none'})
        key = '%s:%s:%s:%s' % (verdict[0], it['tool'], it['dest'], first['op'])
    return F.Result(verdict, key, fired, sites, digest=(o.exit, o.signal, sf.get('io_hash'), C.sha(got or b'')),
                    info={'exit': o.exit, 'bytes_reached_destination': None if got is None else len(got), 'reference_bytes': len(want or b''),
                          'write_calls': sf.get('objects', [{}])[0].get('writes')},
                    io_events=sf.get('io_events', 0), outcome=o.status_key())


def plan_size(plan):
    fl = plan['params']['faults']
    return (len(fl), fl[0]['k'] if fl else 0)


def shrink(ctx, it, params):
    fl = params['faults']
    if len(fl) > 1:
        for i in range(len(fl)):
            yield dict(params, faults=fl[:i] + fl[i + 1:])
    for i, f in enumerate(fl):
        if f['k'] > 0:
            for nk in (0, f['k'] // 2):
                if nk < f['k']:
                    yield dict(params, faults=fl[:i] + [dict(f, k=nk)] + fl[i + 1:])


def describe(ctx, cov, items, plans, results):
    cov['rule'] = ('one evaluation = one run of the real abidw/abilint main() with a seeded write-side fault plan attached to the k-th '
                   'write-class system call on the simulated output object (stdout or the --out-file); distinct = distinct (item, operation, '
                   'fault kind, errno, k) at which a fault actually fired; thorough enumerates every k of every item')
    cov['exhaustive'] = ctx.tier == 'thorough'
    cov['write_calls_per_item'] = {n: it['W'] for n, it in items.items()}
    cov['real_vs_stub'] = {'real': ['tools/abidw.cc and tools/abilint.cc main(), src/abg-writer.cc and the rest of libabigail, compiled from the working tree',
                                    'libstdc++ ofstream/cout, glibc stdio including the at-exit flush', 'the kernel file system for every byte that is written'],
                           'stub': ['results of write/writev/pwrite64/close/fsync/open on the simulated output object (seccomp trap + SIGSYS handler)']}


def check(tier):
    return F.run_check(__import__('vlib.c36', fromlist=['x']), tier)


def replay_file(path, quiet=False):
    return F.replay_file(__import__('vlib.c36', fromlist=['x']), path, quiet)
