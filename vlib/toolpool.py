# Manager for the toolsim worker servers: one persistent single-threaded
# server process per CPU, a forked child per simulated run.
import os, json, subprocess, threading, queue, shutil, time
from . import common as C

ENV_BASE = {'PATH': '/usr/local/sbin:/usr/local/bin:/usr/sbin:/usr/bin:/sbin:/bin', 'LANG': 'C', 'LC_ALL': 'C'}


class Server:
    def __init__(self, variant, tool, prefix=None, cpu=None):
        self.variant, self.tool = variant, tool
        self.cmd = list(prefix or []) + [C.exe(variant, 'toolsim_' + tool)]
        if cpu is not None:
            self.cmd = ['taskset', '-c', str(cpu)] + self.cmd
        self.p = None
        self.start()

    def start(self):
        env = dict(ENV_BASE)
        env['ASAN_SYMBOLIZER_PATH'] = '/usr/bin/llvm-symbolizer'
        env['TSAN_SYMBOLIZER_PATH'] = '/usr/bin/llvm-symbolizer'
        self.p = subprocess.Popen(self.cmd, stdin=subprocess.PIPE, stdout=subprocess.PIPE, stderr=subprocess.DEVNULL, env=env, bufsize=0)
        self.rf = self.p.stdout

    def run(self, spec):
        line = (json.dumps(spec) + '\n').encode()
        for attempt in range(2):
            try:
                self.p.stdin.write(line)
                self.p.stdin.flush()
                out = self._readline()
                if out:
                    return json.loads(out.decode('utf-8', 'replace'))
            except (BrokenPipeError, OSError, ValueError):
                pass
            self.stop()
            self.start()
        raise C.InfraError('toolsim server for %s died twice on spec id %s' % (self.tool, spec.get('id')))

    def _readline(self):
        buf = b''
        while not buf.endswith(b'\n'):
            c = self.rf.read(65536)
            if not c:
                return None
            buf += c
        return buf

    def stop(self):
        try:
            self.p.stdin.close()
        except Exception:
            pass
        try:
            self.p.wait(timeout=5)
        except Exception:
            self.p.kill()
            self.p.wait()


class ToolPool:
    """pool.map(specs) runs the specs on up to n servers; results come back in order."""

    # Measured in this VM: page faults cost ~10-15 us and are globally serialised, so forking servers
    # do not scale: 1 ASan server = 61 runs/s, 2 = 58, 4 = 50; plain: 1 = 160 runs/s, 2 = 195, 4 = 194.
    DEFAULT_N = {'asan': 1, 'tsan': 1, 'plain': 2}

    def __init__(self, variant, tool, n=None, prefix=None, pin=False):
        self.n = n or int(os.environ.get('VERIF_FORK_JOBS', '0')) or self.DEFAULT_N.get(variant, 1)
        self.variant, self.tool, self.prefix, self.pin = variant, tool, prefix, pin
        self.free = queue.Queue()
        self.servers = []
        try:
            cpus = sorted(os.sched_getaffinity(0))
        except AttributeError:
            cpus = list(range(self.n))
        for i in range(self.n):
            s = Server(variant, tool, prefix, cpus[i % len(cpus)] if pin else None)
            self.servers.append(s)
            self.free.put(s)

    def run(self, spec):
        s = self.free.get()
        try:
            return s.run(spec)
        finally:
            self.free.put(s)

    def map(self, specs):
        return C.pmap(self.run, specs, self.n)

    def close(self):
        for s in self.servers:
            s.stop()

    def __enter__(self):
        return self

    def __exit__(self, *a):
        self.close()


def read(path, limit=None):
    try:
        with open(path, 'rb') as f:
            return f.read() if limit is None else f.read(limit)
    except (IOError, OSError):
        return None


def classify(res, stderr_bytes):
    """Outcome class of a finished child for the crash properties.
    ('exit', code) | ('asan', kind) | ('abort', what) | ('signal', n) | ('hang', '') | ('sim-crash', '')"""
    err = (stderr_bytes or b'').decode('utf-8', 'replace')
    if res.get('wall_killed'):
        return ('hang', 'wall')
    sig = res.get('signal', 0)
    code = res.get('exit', -1)
    if sig in (24, 9) and res.get('cpu_ms', 0) >= 900:   # SIGXCPU / hard limit
        return ('hang', 'cpu')
    if code == 77 or 'ERROR: AddressSanitizer' in err:
        kind = 'unknown'
        for l in err.splitlines():
            if 'ERROR: AddressSanitizer:' in l:
                kind = l.split('ERROR: AddressSanitizer:')[1].strip().split()[0]
                break
        if kind == 'ABRT':
            return ('abort', _abort_what(err))
        return ('asan', kind)
    if sig == 6:
        return ('abort', _abort_what(err))
    if sig:
        return ('signal', str(sig))
    if code == 111 and res.get('simf', {}).get('crashed'):
        return ('sim-crash', '')
    return ('exit', code)


def _abort_what(err):
    for l in err.splitlines():
        if 'Assertion' in l and 'failed' in l:
            return 'assert'
        if 'terminate called' in l:
            return 'terminate'
    return 'abort'


def site_of(err_text):
    """Innermost libabigail/tool function named in an assertion message or sanitizer stack (never a line number)."""
    import re
    for l in err_text.splitlines():
        m = re.search(r': ([^:]*?): Assertion `(.*)\' failed', l)
        if m:
            fn = m.group(1).strip()
            fn = re.sub(r'\(.*$', '', fn).strip()
            fn = fn.split(' ')[-1]
            return fn
    frames = []
    for l in err_text.splitlines():
        m = re.match(r'\s*#(\d+) 0x[0-9a-f]+ in (.+?) (/\S+?)(:\d+)?(:\d+)?$', l) or re.match(r'\s*#(\d+) 0x[0-9a-f]+ in (.+?) \((\S+?)\+0x[0-9a-f]+\)', l)
        if m:
            frames.append((int(m.group(1)), m.group(2), m.group(3)))
        elif frames and not l.strip().startswith('#') and l.strip() == '':
            break
    for n, fn, where in frames:
        if '/repo/' in where or '/src/abg-' in where or '/tools/' in where or '/include/abg-' in where:
            fn = re.sub(r'\(.*$', '', fn).strip()
            return fn
    for n, fn, where in frames:
        if 'toolsim' in where and 'sanitizer' not in fn and not fn.startswith('__'):
            return re.sub(r'\(.*$', '', fn).strip()
    if frames:
        return 'dep:' + re.sub(r'\(.*$', '', frames[0][1]).strip()
    return 'unknown'
