# Shared machinery for the abipkgdiff simulations (C31, C30, part of C14):
# seeded package-pair workloads built from the pool, their materialisation on
# disk, SIM-T run specifications and the reference model of the verdict.
import os, json, shutil, subprocess, re
from . import common as C

FAMS = {'shapes': [0, 1, 2, 3], 'fnptr': [0, 1], 'alias': [0, 1], 'tiny': [0, 1], 'cxx': [0, 1, 2], 'mathx': [0, 1], 'tool': [0, 1]}
EXES = ('tool',)      # families that are executables (compared like shared objects unless --dso-only is given)


def file_name(fam):
    return fam if fam in EXES else 'lib%s.so' % fam


def fam_of(path):
    b = os.path.basename(path)
    return b if b in EXES else b[3:-3]

DIRS = ['', 'lib', 'usr/lib64', 'plugins/a', 'plugins/b']
ABIGNORE = b"[suppress_function]\n  name = function_that_does_not_exist_anywhere\n"


def elf_dirs_prefix(paths):
    """What abipkgdiff strips from the path of a binary before using it as the key that matches the binaries of the two
    packages (tools/abipkgdiff.cc package::load_elf_file_paths -> sorted_strings_common_prefix): the character-wise
    common prefix of the directories of all ELF files of *that* package, here relative to the package root.  Two
    packages whose prefixes differ match none of their binaries even when every relative path is the same."""
    dirs = sorted(os.path.dirname(p) + '/' if os.path.dirname(p) else '' for p in paths)
    if not dirs:
        return None
    pre = dirs[0]
    for d in dirs[1:]:
        n = 0
        while n < len(pre) and n < len(d) and pre[n] == d[n]:
            n += 1
        pre = pre[:n]
    return pre


def side_prefixes(wl):
    return (elf_dirs_prefix([f['path'] for f in wl['files'] if f['v1']]), elf_dirs_prefix([f['path'] for f in wl['files'] if f['v2']]))


LINKS = [('lib64', 'lib', 'lib'), ('usr/lib', 'usr/lib64', 'lib64'), ('plugins/c', 'plugins/a', 'a')]   # (link path, directory it stands for, link text)


# options that change what is reported but need no model: used by the differential checks (C31, C14), never by C30
SWARM_OPTS = ['--leaf-changes-only', '--impacted-interfaces', '--harmless', '--no-linkage-name', '--show-identical-binaries', '--no-show-locs', '--show-bytes',
              '--show-hex', '--no-added-syms', '--no-unreferenced-symbols', '--dso-only', '--non-reachable-types', '--no-show-relative-offset-changes', '--no-abignore',
              '--drop-private-types', '--full-impact', '--verbose']


# pairs whose comparison ends with an error (no debug info, --fail-no-dbg) next to pairs with ABI changes and no removed binary
# (whose bits would mask the others): the exit status is accumulated from tasks that complete in a schedule-dependent order
WL_ERROR_PAIRS = {'files': [{'path': 'lib/libcxx.so', 'v1': 'cxx_v0', 'v2': 'cxx_v2'}, {'path': 'lib/libtiny.so', 'v1': 'tiny_v0', 'v2': 'tiny_v1_nodbg'},
                            {'path': 'lib/libshapes.so', 'v1': 'shapes_v0', 'v2': 'shapes_v2'}, {'path': 'lib/libmathx.so', 'v1': 'mathx_v1_nodbg', 'v2': 'mathx_v1'},
                            {'path': 'lib/libfnptr.so', 'v1': 'fnptr_v0', 'v2': 'fnptr_v1'}, {'path': 'lib/libalias.so', 'v1': 'alias_v0', 'v2': 'alias_v0'}],
                  'format': 'dir', 'abignore': 'none', 'options': ['--no-default-suppression', '--fail-no-dbg']}


def gen_workload(rng, big=False, devel=False, same_prefix=False, extended=True, swarm=False, splitdbg=False, deb=False):
    """A package pair as data: files = [{path, v1, v2}] where v1/v2 name a pool library or None.
    same_prefix: keep the pair where the tool's binary matching is unambiguous (see elf_dirs_prefix): if the removals and
    additions left the two sides with different ELF directory prefixes, a pair of binaries at the package root is added,
    which makes the prefix of both sides the root."""
    nfiles = rng.range(1, 6) if not big else rng.range(6, 24)
    layout = rng.choice(['flat', 'mirrored', 'mirrored'])
    files, used = [], set()
    tries = 0
    while len(files) < nfiles and tries < 200:
        tries += 1
        fam = rng.choice(sorted(FAMS))
        d = '' if layout == 'flat' else rng.choice(DIRS)
        path = (d + '/' if d else '') + file_name(fam)
        if path in used:
            continue
        used.add(path)
        vs = FAMS[fam]
        a = rng.choice(vs)
        r = rng.below(100)
        if r < 35:
            b = a                      # unchanged
        elif r < 75:
            b = rng.choice(vs)         # maybe changed
        elif r < 88:
            b = None                   # removed from the second package
        else:
            a, b = None, rng.choice(vs)  # added in the second package
        files.append({'path': path, 'v1': None if a is None else '%s_v%d' % (fam, a), 'v2': None if b is None else '%s_v%d' % (fam, b)})
    # every package has at least one binary (done before the link step: a directory link mirrors what is in the directory)
    if not any(f['v1'] for f in files):
        files[0]['v1'] = files[0]['v2']
    if not any(f['v2'] for f in files):
        files[0]['v2'] = files[0]['v1']
    if extended:
        # an executable may be linked as a PIE in one package and as a plain executable in the other (hardening flags change)
        for f in files:
            if fam_of(f['path']) in EXES and rng.chance(1, 2):
                side = rng.choice(['v1', 'v2'])
                if f[side]:
                    f[side] += '_exec'
    nodbg = extended and rng.chance(1, 3)
    if nodbg:
        # some binaries are shipped without debug info (symbol-only comparison; an error with --fail-no-dbg)
        for f in files:
            if rng.chance(1, 3):
                side = rng.choice(['v1', 'v2', 'v2'])
                if f[side] and not f[side].endswith('_exec'):
                    f[side] = f[side] + '_nodbg'
    dirlink = None
    if extended and layout != 'flat' and rng.chance(1, 4):
        # a directory of one package is also reachable through a symbolic link (lib64 -> lib): abipkgdiff walks the tree
        # with FTS_LOGICAL, so every binary under it is a binary of the package under both paths
        cands = [(l, d, t) for (l, d, t) in LINKS if any(os.path.dirname(f['path']) == d for f in files) and not any(os.path.dirname(f['path']) == l for f in files)]
        if cands:
            l, d, t = rng.choice(cands)
            side = rng.choice(['first', 'first', 'second', 'both'])
            for f in [f for f in files if os.path.dirname(f['path']) == d]:
                g = {'path': l + '/' + os.path.basename(f['path']), 'v1': None, 'v2': None}
                fam = fam_of(f['path'])
                for sd, key in (('first', 'v1'), ('second', 'v2')):
                    if side in (sd, 'both'):
                        g[key] = f[key]                      # the very same file, seen through the link
                    elif rng.chance(3, 4):
                        g[key] = '%s_v%d' % (fam, rng.choice(FAMS[fam]))   # a real, independent file on the other side
                if g['v1'] or g['v2']:
                    files.append(g)
                    used.add(g['path'])
            dirlink = {'link': l, 'dir': d, 'text': t, 'side': side}
    if not any(f['v1'] for f in files):
        files[0]['v1'] = files[0]['v2']
    if not any(f['v2'] for f in files):
        files[0]['v2'] = files[0]['v1']
    fmt = rng.choice(['dir', 'dir', 'dir', 'tar', 'tar.gz'])
    abignore = rng.choice(['none', 'none', 'first', 'second', 'both', 'both'])
    opts = ['--no-default-suppression']
    if rng.chance(1, 4):
        opts.append('--no-added-binaries')
    if rng.chance(1, 4):
        opts.append('--redundant')
    if nodbg and rng.chance(1, 2):
        opts.append('--fail-no-dbg')
    if extended and any(fam_of(f['path']) in EXES for f in files) and rng.chance(1, 3):
        opts.append('--dso-only')          # executables are then no binaries of the package at all
    if swarm:
        for o in SWARM_OPTS:
            if rng.chance(1, 8):
                opts.append(o)
    wl = {'files': files, 'format': fmt, 'abignore': abignore, 'options': opts}
    if swarm and rng.chance(1, 6):
        wl['self_check'] = True    # abipkgdiff --self-check <first package>: every binary against its own ABIXML, in parallel
    if dirlink:
        wl['dirlink'] = dirlink
    if devel and rng.chance(1, 3):
        wl['devel'] = True      # --devel-pkg1/--devel-pkg2: private-type suppressions are built from the headers of the devel packages
    if same_prefix:
        p1, p2 = side_prefixes(wl)
        if p1 != p2:
            free = sorted(f for f in FAMS if file_name(f) not in used and f not in EXES)
            if free:
                fam = rng.choice(free)
                a = rng.choice(FAMS[fam])
                b = a if rng.chance(1, 2) else rng.choice(FAMS[fam])
                files.append({'path': file_name(fam), 'v1': '%s_v%d' % (fam, a), 'v2': '%s_v%d' % (fam, b)})
            else:       # every family already has a file at the root: make one of them present on both sides
                f = rng.choice([f for f in files if '/' not in f['path']])
                f['v1'], f['v2'] = f['v1'] or f['v2'], f['v2'] or f['v1']
            wl['anchored'] = True
    if splitdbg and rng.chance(1, 3):
        # the way distributions ship packages: binaries without their .debug* sections, the debug info in a package of its
        # own (--d1/--d2; usr/lib/debug/<file>.debug reached through usr/lib/debug/.build-id/xx/yyyy.debug).  Drawn last, so
        # that the rest of the workload is what it was before this dimension existed.
        wl['splitdbg'] = True
    if deb and wl['format'] != 'dir' and rng.chance(1, 2) and have_deb():
        wl['format'] = 'deb'       # a Debian package (extracted with dpkg -x; content at the top of the extraction directory)
    return wl


def have_deb():
    """Debian packages are part of the workload space where the machine can build and extract them"""
    try:
        built_in = '#define WITH_DEB 1' in open(os.path.join(C.REPO, 'config.h')).read()
    except OSError:
        built_in = False
    return bool(built_in and shutil.which('dpkg-deb') and shutil.which('dpkg'))


def eff(wl, v):
    """the pool entry that stands in the package for version v of a binary"""
    if v and wl.get('splitdbg') and not v.endswith('_nodbg'):
        return v + '_strip'
    return v


def materialise(wl, libs, root, order_rng=None):
    """Create the two packages under root; returns (pkg1 path, pkg2 path)."""
    out = []
    for side, key in (('first', 'v1'), ('second', 'v2')):
        # the directory name doubles as the package name; keep the two of equal length
        d = os.path.join(root, 'pkg-' + side[0] + '1')
        os.makedirs(d)
        entries = [f for f in wl['files'] if f[key]]
        if order_rng is not None:
            entries = list(entries)
            order_rng.shuffle(entries)
        dl = wl.get('dirlink')
        if dl and dl['side'] in (side, 'both'):
            entries = [f for f in entries if os.path.dirname(f['path']) != dl['link']]
            os.makedirs(os.path.dirname(os.path.join(d, dl['link'])), exist_ok=True)
            os.makedirs(os.path.join(d, dl['dir']), exist_ok=True)     # the directory may hold no binary on this side: the link must not dangle
            os.symlink(dl['text'], os.path.join(d, dl['link']))
        for f in entries:
            p = os.path.join(d, f['path'])
            os.makedirs(os.path.dirname(p), exist_ok=True)
            shutil.copyfile(libs[eff(wl, f[key])], p)
            os.chmod(p, 0o755)
        # the package on disk must be exactly what the workload (and therefore the reference model) says it is
        disk = set()
        for dp, dn, fn in os.walk(d, followlinks=True):
            disk.update(os.path.relpath(os.path.join(dp, x), d) for x in fn)
        if disk != set(f['path'] for f in wl['files'] if f[key]):
            raise C.InfraError('package generator inconsistency: on disk %s, workload %s' % (sorted(disk), sorted(f['path'] for f in wl['files'] if f[key])))
        if wl['abignore'] in (side, 'both'):
            open(os.path.join(d, 'pkg.abignore'), 'wb').write(ABIGNORE)
        if wl['format'] == 'dir':
            out.append(d)
        else:
            out.append(_archive(wl['format'], root, d, top_member=True))
    if wl.get('splitdbg'):
        for side, key in (('f', 'v1'), ('s', 'v2')):
            d = os.path.join(root, 'pkg-%s1-debuginfo' % side)
            os.makedirs(os.path.join(d, 'usr', 'lib', 'debug'))       # present even when every binary of this side came without debug info
            for v in sorted(set(f[key] for f in wl['files'] if f[key] and eff(wl, f[key]) != f[key])):
                # merge the debug tree of this binary into the package (two binaries with the same build id - identical code -
                # share one .build-id link)
                for dp, dn, fn in os.walk(libs[v + '_dbgroot']):
                    rel = os.path.relpath(dp, libs[v + '_dbgroot'])
                    os.makedirs(os.path.join(d, rel), exist_ok=True)
                    for x in fn:
                        src, dst = os.path.join(dp, x), os.path.join(d, rel, x)
                        if os.path.lexists(dst):
                            continue
                        if os.path.islink(src):
                            os.symlink(os.readlink(src), dst)
                        else:
                            shutil.copyfile(src, dst)
            if wl['format'] != 'dir':
                # abipkgdiff looks for <extraction directory>/usr/lib/debug: the archive has usr/ as its top-level member
                _archive(wl['format'], root, d, top_member=False)
    if wl.get('devel'):
        for side in ('f', 's'):
            d = os.path.join(root, 'pkg-%s1-devel' % side, 'usr', 'include')
            os.makedirs(d)
            for h in ('shapes.h', 'fnptr.h', 'geo.h'):
                open(os.path.join(d, h), 'w').write('/* public header */\nstruct %s_public;\n' % h[:-2])
    return out[0], out[1]


def _archive(fmt, root, d, top_member):
    """pack directory d (under root) as d.<fmt> and remove it.  tar archives of a package carry the package directory as their
    top-level member (top_member), those of a debug-info package and every .deb have the content at the top."""
    out = d + '.' + fmt
    if fmt == 'deb':
        os.makedirs(os.path.join(d, 'DEBIAN'))
        open(os.path.join(d, 'DEBIAN', 'control'), 'w').write(
            'Package: %s\nVersion: 1.0\nArchitecture: amd64\nMaintainer: nobody <nobody@example.org>\nDescription: workload package\n' % os.path.basename(d).lower())
        cmd = ['dpkg-deb', '--root-owner-group', '-b', d, out]
    elif top_member:
        cmd = ['tar', '--mtime=@1600000000', '-C', root, '-c' + ('z' if fmt.endswith('gz') else '') + 'f', out, os.path.basename(d)]
    else:
        cmd = ['tar', '--mtime=@1600000000', '-C', d, '-c' + ('z' if fmt.endswith('gz') else '') + 'f', out, 'usr']
    # fixed time stamps: the same workload gives the same archive bytes whenever it is materialised (a torn-archive plan
    # names its cut as a fraction of the archive's length)
    p = subprocess.run(cmd, stdout=subprocess.PIPE, stderr=subprocess.STDOUT, env=dict(os.environ, SOURCE_DATE_EPOCH='1600000000'))
    if p.returncode != 0:
        raise C.InfraError('%s failed: %s' % (cmd[0], p.stdout[-300:]))
    shutil.rmtree(d)
    return out


def spec(wl, p1, p2, simt, parallel=True, extra=None, root=None):
    """root: the directory materialise() was given (default: where the first package is)"""
    devel = []
    root = root or os.path.dirname(p1)
    if wl.get('devel'):
        devel = ['--devel-pkg1', os.path.join(root, 'pkg-f1-devel'), '--devel-pkg2', os.path.join(root, 'pkg-s1-devel')]
    if wl.get('splitdbg') and not wl.get('self_check'):
        ext = '' if wl['format'] == 'dir' else '.' + wl['format']
        devel += ['--d1', os.path.join(root, 'pkg-f1-debuginfo' + ext), '--d2', os.path.join(root, 'pkg-s1-debuginfo' + ext)]
    argv = ['abipkgdiff'] + list(wl['options']) + ([] if parallel else ['--no-parallel']) + devel + list(extra or []) + [p1, p2]
    if wl.get('self_check'):
        ext = '' if wl['format'] == 'dir' else '.' + wl['format']
        dbg = ['--d1', os.path.join(root, 'pkg-f1-debuginfo' + ext)] if wl.get('splitdbg') else []
        argv = ['abipkgdiff'] + [o for o in wl['options'] if o != '--fail-no-dbg'] + ([] if parallel else ['--no-parallel']) + dbg + list(extra or []) + ['--self-check', p1]
    s = {'argv': argv, 'cpu_limit_s': 120}
    if simt is not None:
        s['simt'] = simt
    return s


def gen_simt(rng, nfiles):
    """schedule configuration, swarm style"""
    c = {'seed': rng.next() & ((1 << 62) - 1), 'policy': rng.below(4), 'pct_depth': rng.range(1, 3), 'pct_len': 60 + 40 * nfiles,
         'sticky_permille': rng.range(500, 950), 'quantum': rng.range(0, 6), 'nprocs': rng.choice([1, 2, 2, 3, 4, 4, 8, 16]),
         'max_steps': 20000 + 4000 * nfiles}
    if rng.chance(1, 2):
        c['spurious_budget'] = rng.range(1, 5)
        c['spurious_permille'] = rng.range(5, 60)
    if rng.chance(1, 3):
        # hold back a thread at its first request of a mutex nobody requested before (lazily initialised shared state)
        c['first_use_delay'] = rng.choice([15, 40, 120])
    if rng.chance(3, 10):
        c['starve_victim'] = rng.below(17)
        c['starve_from'] = rng.below(150)
        c['starve_len'] = rng.range(10, 300)
    return c


# ---- reference model of the verdict (C30) -----------------------------------
def model(wl, pair_status):
    """pair_status(v1, v2, options) -> abidiff exit status.  Returns dict(status, sections, removed, added).
    Only meaningful where side_prefixes(wl) are equal (gen_workload(same_prefix=True)): there, a binary of the first
    package is matched exactly when the second package has a binary at the same relative path."""
    # the Removed/Added lists print paths relative to the extraction root; an archive made by materialise() has the
    # package directory as its top-level member
    top1, top2 = ('', '') if wl['format'] in ('dir', 'deb') else ('pkg-f1/', 'pkg-s1/')
    status = 0
    sections, removed, added, errors = [], [], [], []
    dl = wl.get('dirlink')

    def real(side, path):
        # the lists print the resolved path of a binary that was reached through a directory link
        if dl and dl['side'] in (side, 'both') and os.path.dirname(path) == dl['link']:
            return dl['dir'] + '/' + os.path.basename(path)
        return path

    for f in wl['files']:
        if '--dso-only' in wl['options'] and fam_of(f['path']) in EXES:
            continue
        if f['v1'] and f['v2']:
            if '--fail-no-dbg' in wl['options'] and (f['v1'].endswith('_nodbg') or f['v2'].endswith('_nodbg')):
                # the comparison of this pair ends with an error (ABIDIFF_ERROR); nothing else is known about the pair
                errors.append(os.path.basename(f['path']))
                status |= 1
                continue
            st = pair_status(eff(wl, f['v1']), eff(wl, f['v2']), wl['options'])
            status |= st
            if st & 4:
                sections.append(os.path.basename(f['path']))
        elif f['v1']:
            removed.append(top1 + real('first', f['path']))
            status |= 12
        else:
            added.append(top2 + real('second', f['path']))
    return {'status': status, 'sections': sorted(sections), 'removed': sorted(removed), 'added': sorted(added), 'errors': sorted(errors)}


def norm_report(out, indent=False):
    """a report with trailing blanks removed from every line (abipkgdiff indents abidiff's report by two blanks, blank lines included or not)"""
    lines = [l.rstrip() for l in (out or b'').decode('utf-8', 'replace').splitlines()]
    if indent:
        lines = [('  ' + l) if l else l for l in lines]
    while lines and not lines[-1]:
        lines.pop()
    return '\n'.join(lines)


def parse_report(out):
    text = (out or b'').decode('utf-8', 'replace')
    bodies = [(m.group(1), norm_report(m.group(2).encode())) for m in re.finditer(r"^=+ changes of '([^']*)'=+\n(.*?)^=+ end of changes of '\1'=+$", text, re.M | re.S)]
    sections = sorted(re.findall(r"^=+ changes of '([^']*)'=+$", text, re.M))
    ends = sorted(re.findall(r"^=+ end of changes of '([^']*)'=+$", text, re.M))
    removed, added = [], []
    mode = None
    for line in text.splitlines():
        if line.startswith('Removed binaries:'):
            mode = removed
        elif line.startswith('Added binaries:'):
            mode = added
        elif mode is not None and line.startswith('  ['):
            m = re.match(r"  \[[DA]\] (.*?), ", line)
            if m:
                mode.append(m.group(1).lstrip('/'))   # the tool prints the path relative to the package root, with or without a leading '/'
        elif not line.startswith('  '):
            mode = None if not line.startswith(('Removed', 'Added')) else mode
    return {'sections': sections, 'section_ends': ends, 'removed': sorted(removed), 'added': sorted(added), 'bodies': bodies}


def tsan_race_key(err):
    """two innermost libabigail/tool functions of a TSan data-race report (sorted), or None"""
    text = (err or b'').decode('utf-8', 'replace')
    if 'ThreadSanitizer: data race' not in text:
        return None
    blocks = text.split('WARNING: ThreadSanitizer: data race')[1:]
    keys = []
    for blk in blocks:
        fns = []
        cur = None
        for line in blk.splitlines():
            if re.match(r'\s+(Previous )?(Write|Read|Atomic write|Atomic read) of size', line, re.I):
                cur = []
                fns.append(cur)
            elif cur is not None and re.match(r'\s+#\d+ ', line):
                m = re.match(r'\s+#\d+ (\S.*?) (/\S+|<null>)', line)
                if m:
                    cur.append((m.group(1), m.group(2)))
            elif cur is not None and not line.strip():
                cur = None
        names = []
        for frames in fns[:2]:
            pick = None
            for fn, where in frames:
                if '/repo/' in where or '/tools/' in where or 'abg-' in where or '/src/' in where:
                    pick = re.sub(r'\(.*$', '', fn)
                    break
            names.append(pick or (re.sub(r'\(.*$', '', frames[0][0]) if frames else '?'))
        keys.append('|'.join(sorted(names)))
    return sorted(set(keys))
