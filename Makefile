# Builds the simulator executables from /repo's *current working tree*.
#   make VARIANT=asan|tsan|plain  <target>
# REPO and BUILD can be overridden (the sensitivity scripts point REPO at a
# scratch worktree and BUILD at a scratch build directory).
REPO    ?= /repo
BUILD   ?= $(abspath $(dir $(lastword $(MAKEFILE_LIST))))/build
VARIANT ?= asan
B       := $(BUILD)/$(VARIANT)
SIM     := $(abspath $(dir $(lastword $(MAKEFILE_LIST))))/sim

CCACHE  := $(shell command -v ccache 2>/dev/null)
export CCACHE_DIR ?= /verif/build/ccache
export CCACHE_BASEDIR ?= $(REPO)
export CCACHE_NOHASHDIR ?= 1

ifeq ($(VARIANT),asan)
  CXX_V   := $(CCACHE) clang++
  SANFLAGS:= -fsanitize=address -fno-omit-frame-pointer
  OPT     := -O1 -g1
else ifeq ($(VARIANT),tsan)
  CXX_V   := $(CCACHE) clang++
  SANFLAGS:= -fsanitize=thread -fno-omit-frame-pointer
  OPT     := -O1 -g1
else ifeq ($(VARIANT),plain)
  CXX_V   := $(CCACHE) g++
  SANFLAGS:=
  OPT     := -O1 -g1
else
  $(error unknown VARIANT $(VARIANT))
endif

GUARD   := -DLIBABIGAIL_VERIF
REPOCPP := -DHAVE_CONFIG_H -DABIGAIL_ROOT_SYSTEM_LIBDIR=\"/usr/local/lib\" -I$(REPO) -I$(REPO)/include -I$(REPO)/src -idirafter /repo -idirafter /repo/include \
           -I/usr/include/libxml2 $(GUARD)
CXXSTD  := -std=c++11 -Wno-error -w
LIBS    := -lxml2 -lelf -ldw -lpthread -ldl

LIBSRC  := $(filter-out $(REPO)/src/abg-ctf-reader.cc,$(wildcard $(REPO)/src/*.cc))
LIBOBJ  := $(patsubst $(REPO)/src/%.cc,$(B)/lib/%.o,$(LIBSRC))
TOOLS   := abidw abidiff abilint abicompat abipkgdiff abisym
WRAP_S  := -Wl,--wrap=system,--wrap=mkdtemp
WRAP_T  := -Wl,--wrap=pthread_create,--wrap=pthread_join,--wrap=pthread_mutex_lock,--wrap=pthread_mutex_trylock,--wrap=pthread_mutex_unlock,--wrap=pthread_cond_wait,--wrap=pthread_cond_timedwait,--wrap=pthread_cond_signal,--wrap=pthread_cond_broadcast,--wrap=sysconf,--wrap=_Znwm

.SECONDARY:
.PHONY: all queue_sim toolsims clean

all: queue_sim

queue_sim: $(B)/queue_sim

$(B)/lib/%.o: $(REPO)/src/%.cc
	@mkdir -p $(dir $@)
	$(CXX_V) $(CXXSTD) $(OPT) $(SANFLAGS) $(REPOCPP) -fvisibility=hidden -MMD -MP -c $< -o $@

$(B)/tools/%.o: $(REPO)/tools/%.cc
	@mkdir -p $(dir $@)
	$(CXX_V) $(CXXSTD) $(OPT) $(SANFLAGS) $(REPOCPP) -Dmain=$*_main -MMD -MP -c $< -o $@

# simulator runtime: never instrumented
$(B)/sim/%.o: $(SIM)/%.cc $(wildcard $(SIM)/*.h)
	@mkdir -p $(dir $@)
	$(CXX_V) -std=c++11 -O1 -g1 -Wall -fno-omit-frame-pointer -I$(SIM) -c $< -o $@

# harness code: instrumented like the code under test
$(B)/harness/%.o: $(SIM)/%.cc $(wildcard $(SIM)/*.h)
	@mkdir -p $(dir $@)
	$(CXX_V) -std=c++11 $(OPT) -Wall $(SANFLAGS) $(REPOCPP) -I$(SIM) -c $< -o $@

$(B)/queue_sim: $(B)/harness/queue_sim.o $(B)/sim/simsched.o $(B)/lib/abg-workers.o
	$(CXX_V) $(SANFLAGS) $(WRAP_T) -rdynamic $^ -o $@ -lpthread

toolsims: $(foreach t,$(TOOLS),$(B)/toolsim_$(t))
$(foreach t,$(TOOLS),$(eval toolsim_$(t): $(B)/toolsim_$(t)))
.PHONY: $(foreach t,$(TOOLS),toolsim_$(t))

$(B)/harness/toolsim_%.o: $(SIM)/toolsim.cc $(wildcard $(SIM)/*.h)
	@mkdir -p $(dir $@)
	$(CXX_V) -std=c++11 $(OPT) -Wall $(SANFLAGS) -I$(SIM) -DTOOL_MAIN=$*_main -c $< -o $@

ifeq ($(VARIANT),plain)
  ALLOC_OBJ := $(B)/sim/simalloc.o
else
  ALLOC_OBJ := $(B)/sim/simalloc_stub.o
endif

$(B)/toolsim_%: $(B)/harness/toolsim_%.o $(B)/tools/%.o $(B)/sim/simsched.o $(B)/sim/simfile.o $(ALLOC_OBJ) $(LIBOBJ)
	$(CXX_V) $(SANFLAGS) $(WRAP_T) $(WRAP_S) -rdynamic $^ -o $@ $(LIBS)

-include $(wildcard $(B)/lib/*.d) $(wildcard $(B)/tools/*.d)

clean:
	rm -rf $(BUILD)/asan $(BUILD)/tsan $(BUILD)/plain
