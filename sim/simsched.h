// SIM-T: deterministic thread scheduler.  Real pthreads, one token.
//
// Every pthread_* call made by the objects linked into the simulator
// executable is routed here by -Wl,--wrap.  Exactly one thread (the token
// holder) runs; all others are parked on a private futex word.  Mutex
// ownership, condition-variable wait sets and joins are *modelled* here; the
// real mutex is additionally locked/unlocked (it can never block) so that
// ThreadSanitizer sees the program's own happens-before edges and none of
// the scheduler's.
#ifndef SIM_SCHED_H
#define SIM_SCHED_H
#include <stdint.h>
#include <stddef.h>
#include <string>
#include <vector>

enum SimPolicy { POL_UNIFORM = 0, POL_STICKY = 1, POL_PCT = 2, POL_ROTATE = 3, POL_NPOL = 4 };

struct SimDecision
{
  char kind;   // 'T' thread pick, 'S' signal recipient, 'W' spurious wake-up
  int  n;      // number of options
  int  chosen; // option taken
  int  dflt;   // what "no decision" would have taken
};

struct SimConfig
{
  uint64_t seed;
  int  policy;
  int  pct_depth;          // number of priority change points (PCT)
  int  pct_len;            // estimated run length used to place change points
  int  sticky_permille;    // probability of staying on the current thread
  int  quantum;            // POL_ROTATE quantum
  int  spurious_budget;    // max number of spurious condvar wake-ups injected
  int  spurious_permille;  // per-decision probability while budget remains
  int  starve_victim;      // -1 none; else thread id modulo live threads
  long starve_from, starve_len; // decision window in which the victim is not picked
  int  preempt_budget;     // preemptions injected *inside* task bodies, at calls of operator new made by the program
  int  preempt_gap_log2;   // gaps between them are 2^U(0..preempt_gap_log2) allocations
  int  first_use_delay;    // a thread that requests a mutex nobody has requested before (lazy initialisation guarded by a
                           // fresh lock) is not picked for this many decisions while another thread is enabled; 0 = off
  int  nprocs;             // what sysconf(_SC_NPROCESSORS_ONLN) returns
  long max_steps;          // bounded-progress cap on scheduler decisions
  int  stall_seconds;      // real-time watchdog (infrastructure error, exit 2)
  bool use_replay;         // take decisions from 'replay' instead of the PRNG
  std::vector<int> replay; // one entry per decision; -1 or missing = default
  SimConfig();
};

struct SimStats
{
  long steps, switches, threads_created;
  long lock_ops, unlock_ops, wait_ops, signal_ops, broadcast_ops, join_ops;
  long signals_lost_empty;    // cond_signal with an empty wait set
  long signal_choices;        // cond_signal with >= 2 waiters (recipient was a choice)
  long spurious_fired;
  long starve_skips;          // decisions in which the victim was enabled but excluded
  long first_use_delays;      // threads held back at the first request of a mutex
  long lock_contended;        // lock requested while owned by another thread
  long preemptions;           // scheduling points taken inside task bodies (at operator new)
  long allocations_seen;
  long max_enabled;
  uint64_t log_hash;          // FNV of the event log
  uint64_t sched_hash;        // FNV of the (thread, op) sequence only
};

// fatal classes raised by the scheduler itself
typedef void (*sim_fatal_cb)(const char *klass, const std::string &details);

void sim_sched_begin(const SimConfig &cfg, sim_fatal_cb cb);
void sim_sched_end(SimStats *out);
bool sim_sched_active();
void sim_yield(const char *tag);                 // explicit scheduling point for harness code
void sim_event(const char *tag, long a, long b); // append to the event log; never draws, never reads a clock
int  sim_self();                                 // simulated thread id (0 = main), -1 if inactive
const std::vector<SimDecision> &sim_decisions();
std::string sim_dump_log(size_t max_lines);
// harness history, recorded in uninstrumented code so that TSan does not
// mistake the recorder for program state
struct SimHist { int kind; int a; int tid; };
void sim_hist(int kind, int a, const char *tag);
const std::vector<SimHist> &sim_hist_get();
long sim_tsan_reports();
unsigned long long sim_tsan_tag(unsigned long long set_to); // tag printed with each TSan report
std::string sim_dump_threads();
uint64_t sim_log_hash_now();
#endif
