// SIM-F implementation.  See simfile.h.  Uninstrumented in every variant.
#include "simfile.h"
#include "prng.h"
#include <stdio.h>
#include <stdlib.h>
#include <string.h>
#include <unistd.h>
#include <errno.h>
#include <signal.h>
#include <fcntl.h>
#include <ucontext.h>
#include <sys/mman.h>
#include <sys/prctl.h>
#include <sys/syscall.h>
#include <sys/uio.h>
#include <sys/wait.h>
#include <linux/seccomp.h>
#include <linux/filter.h>
#include <linux/audit.h>

#ifndef SECCOMP_RET_TRAP
#define SECCOMP_RET_TRAP 0x00030000U
#endif

static const unsigned long COOKIE = 0x51f0c0de7ea5e11fUL;
static SfShared *S;
enum { MAXFD = 4096 };
static short fd_obj[MAXFD];
struct SfParty { int obj, op; long k; char cmd[1500]; };
static SfParty parties[4];
static int nparty;
static void (*io_yield_fn)(const char *);

static inline long raw6(long nr, long a, long b, long c, long d, long e, long f)
{
  long ret;
  register long r10 asm("r10") = d;
  register long r8 asm("r8") = e;
  register long r9 asm("r9") = f;
  asm volatile("syscall" : "=a"(ret) : "a"(nr), "D"(a), "S"(b), "d"(c), "r"(r10), "r"(r8), "r"(r9) : "rcx", "r11", "memory");
  return ret;
}
static inline long pass(long nr, long a, long b, long c, long d, long e) { return raw6(nr, a, b, c, d, e, (long) COOKIE); }

SfShared *simf_shared()
{
  if (!S)
    {
      void *p = mmap(0, sizeof(SfShared), PROT_READ | PROT_WRITE, MAP_SHARED | MAP_ANONYMOUS, -1, 0);
      if (p == MAP_FAILED) { perror("mmap"); _exit(2); }
      S = (SfShared *) p;
      memset(S, 0, sizeof *S);
    }
  return S;
}

void simf_reset()
{
  simf_shared();
  memset(S, 0, sizeof *S);
  nparty = 0;
  io_yield_fn = 0;
  S->io_hash = FNV_INIT;
  for (int i = 0; i < MAXFD; ++i) fd_obj[i] = -1;
}

int simf_add_object(const char *path, int match, int fd_fixed)
{
  if (S->nobj >= SF_MAX_OBJ) return -1;
  SfObj &o = S->obj[S->nobj];
  memset(&o, 0, sizeof o);
  if (path) strncpy(o.path, path, sizeof(o.path) - 1);
  o.match = match; o.fd_fixed = fd_fixed;
  if (match == 2 && fd_fixed >= 0 && fd_fixed < MAXFD) fd_obj[fd_fixed] = (short) S->nobj;
  return S->nobj++;
}

int simf_add_fault(int obj, int op, long k, int kind, int err, long bytes, int sticky)
{
  if (S->nfault >= SF_MAX_FAULT) return -1;
  SfFault &f = S->fault[S->nfault];
  f.obj = obj; f.op = op; f.k = k; f.kind = kind; f.err = err; f.bytes = bytes; f.sticky = sticky; f.fired = 0;
  return S->nfault++;
}

static int helper_run(const char *cmd);
void simf_set_io_yield(void (*fn)(const char *)) { io_yield_fn = fn; }

int simf_add_party(int obj, int op, long k, const char *cmd)
{
  if (nparty >= 4) return -1;
  SfParty &p = parties[nparty];
  p.obj = obj; p.op = op; p.k = k;
  strncpy(p.cmd, cmd, sizeof(p.cmd) - 1);
  return nparty++;
}

static void maybe_party(int obj, int op, long k)
{
  for (int i = 0; i < nparty; ++i)
    if (parties[i].obj == obj && parties[i].op == op && parties[i].k == k && !S->party_fired[i])
      {
	S->party_fired[i] = 1;
	S->party_status[i] = helper_run(parties[i].cmd);
	long v[4] = { 1000 + i, op, k, S->party_status[i] };
	S->io_hash = fnv1a(S->io_hash, v, sizeof v);
      }
}

static SfFault *find_fault(int obj, int op, long k)
{
  for (int i = 0; i < S->nfault; ++i)
    if (S->fault[i].obj == obj && S->fault[i].op == op && S->fault[i].k == k) return &S->fault[i];
  return 0;
}

static void io_event(int obj, int op, long req, long ret)
{
  long v[4] = { obj, op, req, ret };
  S->io_hash = fnv1a(S->io_hash, v, sizeof v);
  ++S->io_events;
}

static int match_path(const char *p)
{
  if (!p) return -1;
  for (int i = 0; i < S->nobj; ++i)
    {
      const SfObj &o = S->obj[i];
      if (o.match == 0 && !strcmp(o.path, p)) return i;
      if (o.match == 1 && !strncmp(o.path, p, strlen(o.path))) return i;
    }
  return -1;
}

static long iov_total(const struct iovec *iov, long n)
{
  long t = 0;
  for (long i = 0; i < n; ++i) t += (long) iov[i].iov_len;
  return t;
}

// perform a write-class call moving at most 'limit' bytes
static long do_write_limited(long nr, long fd, long a1, long a2, long a3, long limit)
{
  if (nr == SYS_writev)
    {
      struct iovec tmp[64];
      const struct iovec *iov = (const struct iovec *) a1;
      long n = a2 > 64 ? 64 : a2, left = limit, m = 0;
      for (long i = 0; i < n && left > 0; ++i)
	{
	  tmp[m] = iov[i];
	  if ((long) tmp[m].iov_len > left) tmp[m].iov_len = (size_t) left;
	  left -= (long) tmp[m].iov_len;
	  ++m;
	}
      return pass(SYS_writev, fd, (long) tmp, m, 0, 0);
    }
  return pass(nr, fd, a1, limit, a3, 0);
}

static void crash_now()
{
  S->crashed = 1;
  raw6(SYS_exit_group, SIMF_CRASH_EXIT, 0, 0, 0, 0, 0);
  for (;;) {}
}

static long handle(long nr, long a0, long a1, long a2, long a3, long a4)
{
  ++S->trapped_total;
  switch (nr)
    {
    case SYS_open:
    case SYS_openat:
      {
	const char *path = (const char *) (nr == SYS_open ? a0 : a1);
	int idx = match_path(path);
	if (idx >= 0)
	  {
	    SfObj &o = S->obj[idx];
	    long k = o.calls[SF_OPEN]++;
	    if (io_yield_fn) io_yield_fn("io-open");
	    maybe_party(idx, SF_OPEN, k);
	    SfFault *f = find_fault(idx, SF_OPEN, k);
	    if (f && f->kind == SFK_ERROR)
	      {
		f->fired = 1; ++o.failed_ops;
		io_event(idx, SF_OPEN, 0, -f->err);
		return -f->err;
	      }
	  }
	long r = pass(nr, a0, a1, a2, a3, a4);
	if (idx >= 0)
	  {
	    if (r >= 0 && r < MAXFD) { fd_obj[r] = (short) idx; ++S->obj[idx].opened; }
	    io_event(idx, SF_OPEN, 0, r >= 0 ? 0 : r);
	  }
	else ++S->passthrough_total;
	return r;
      }
    case SYS_close:
      {
	int idx = a0 >= 0 && a0 < MAXFD ? fd_obj[a0] : -1;
	if (idx >= 0 && io_yield_fn) io_yield_fn("io-close");
	if (idx >= 0) maybe_party(idx, SF_CLOSE, S->obj[idx].calls[SF_CLOSE]);
	long r = pass(nr, a0, 0, 0, 0, 0);
	if (idx < 0) { ++S->passthrough_total; return r; }
	SfObj &o = S->obj[idx];
	long k = o.calls[SF_CLOSE]++;
	if (!(o.match == 2)) fd_obj[a0] = -1;
	SfFault *f = find_fault(idx, SF_CLOSE, k);
	if (f && f->kind == SFK_ERROR) { f->fired = 1; ++o.failed_ops; o.close_failed = 1; r = -f->err; }
	io_event(idx, SF_CLOSE, 0, r);
	return r;
      }
    case SYS_fsync:
    case SYS_fdatasync:
      {
	int idx = a0 >= 0 && a0 < MAXFD ? fd_obj[a0] : -1;
	if (idx < 0) { ++S->passthrough_total; return pass(nr, a0, 0, 0, 0, 0); }
	SfObj &o = S->obj[idx];
	long k = o.calls[SF_FSYNC]++;
	SfFault *f = find_fault(idx, SF_FSYNC, k);
	long r;
	if (f && f->kind == SFK_ERROR) { f->fired = 1; ++o.failed_ops; r = -f->err; }
	else r = pass(nr, a0, 0, 0, 0, 0);
	io_event(idx, SF_FSYNC, 0, r);
	return r;
      }
    case SYS_write:
    case SYS_pwrite64:
    case SYS_writev:
      {
	int idx = a0 >= 0 && a0 < MAXFD ? fd_obj[a0] : -1;
	if (idx < 0) { ++S->passthrough_total; return pass(nr, a0, a1, a2, a3, a4); }
	SfObj &o = S->obj[idx];
	long k = o.calls[SF_WRITE]++;
	maybe_party(idx, SF_WRITE, k);
	long total = nr == SYS_writev ? iov_total((const struct iovec *) a1, a2) : a2;
	o.bytes_w_requested += total;
	long r;
	SfFault *f = find_fault(idx, SF_WRITE, k);
	if (o.sticky_errno) { r = -o.sticky_errno; ++o.failed_ops; }
	else if (f && f->kind == SFK_ERROR)
	  {
	    f->fired = 1; ++o.failed_ops;
	    if (f->sticky) o.sticky_errno = f->err;
	    r = -f->err;
	  }
	else if (f && f->kind == SFK_SHORT && total > 1)
	  {
	    long n = f->bytes < 1 ? 1 : f->bytes >= total ? total - 1 : f->bytes;
	    f->fired = 1;
	    r = do_write_limited(nr, a0, a1, a2, a3, n);
	  }
	else if (f && f->kind == SFK_CRASH)
	  {
	    long n = f->bytes < 0 ? 0 : f->bytes > total ? total : f->bytes;
	    f->fired = 1;
	    r = n > 0 ? do_write_limited(nr, a0, a1, a2, a3, n) : 0;
	    if (r > 0) o.bytes_w += r;
	    io_event(idx, SF_WRITE, total, r);
	    crash_now();
	  }
	else
	  r = pass(nr, a0, a1, a2, a3, a4);
	if (r > 0) o.bytes_w += r;
	io_event(idx, SF_WRITE, total, r);
	return r;
      }
    case SYS_read:
    case SYS_pread64:
    case SYS_readv:
      {
	int idx = a0 >= 0 && a0 < MAXFD ? fd_obj[a0] : -1;
	if (idx < 0) { ++S->passthrough_total; return pass(nr, a0, a1, a2, a3, a4); }
	SfObj &o = S->obj[idx];
	long k = o.calls[SF_READ]++;
	long total = nr == SYS_readv ? iov_total((const struct iovec *) a1, a2) : a2;
	long r;
	SfFault *f = find_fault(idx, SF_READ, k);
	if (o.sticky_errno == -1) r = 0; // sticky early EOF
	else if (f && f->kind == SFK_ERROR) { f->fired = 1; ++o.failed_ops; r = -f->err; }
	else if (f && f->kind == SFK_EOF) { f->fired = 1; o.sticky_errno = -1; r = 0; }
	else if (f && f->kind == SFK_SHORT && total > 1 && nr != SYS_readv)
	  {
	    long n = f->bytes < 1 ? 1 : f->bytes >= total ? total - 1 : f->bytes;
	    f->fired = 1;
	    r = pass(nr, a0, a1, n, a3, 0);
	  }
	else r = pass(nr, a0, a1, a2, a3, a4);
	if (r > 0) o.bytes_r += r;
	io_event(idx, SF_READ, total, r);
	return r;
      }
    default:
      ++S->passthrough_total;
      return pass(nr, a0, a1, a2, a3, a4);
    }
}

static void on_sigsys(int, siginfo_t *si, void *ucv)
{
  ucontext_t *uc = (ucontext_t *) ucv;
  greg_t *g = uc->uc_mcontext.gregs;
  int saved_errno = errno;
  long nr = si->si_syscall;
  long r = handle(nr, g[REG_RDI], g[REG_RSI], g[REG_RDX], g[REG_R10], g[REG_R8]);
  g[REG_RAX] = r;
  errno = saved_errno;
}

bool simf_install()
{
  static const int trapped[] = { SYS_read, SYS_write, SYS_open, SYS_close, SYS_pread64, SYS_pwrite64, SYS_readv, SYS_writev,
				 SYS_fsync, SYS_fdatasync, SYS_openat };
  const int NT = (int) (sizeof trapped / sizeof trapped[0]);
  struct sigaction sa;
  memset(&sa, 0, sizeof sa);
  sa.sa_sigaction = on_sigsys;
  sa.sa_flags = SA_SIGINFO | SA_NODEFER;
  sigemptyset(&sa.sa_mask);
  if (sigaction(SIGSYS, &sa, 0) != 0) return false;
  sigset_t ss; sigemptyset(&ss); sigaddset(&ss, SIGSYS); sigprocmask(SIG_UNBLOCK, &ss, 0);

  struct sock_filter prog[8 + 2 * 16 + 8];
  int n = 0;
#define ST(c, kk) prog[n].code = (unsigned short) (c), prog[n].jt = 0, prog[n].jf = 0, prog[n].k = (kk), ++n
#define JP(c, kk, t, f) prog[n].code = (unsigned short) (c), prog[n].jt = (unsigned char) (t), prog[n].jf = (unsigned char) (f), prog[n].k = (kk), ++n
  ST(BPF_LD | BPF_W | BPF_ABS, 4);                                   // arch
  JP(BPF_JMP | BPF_JEQ | BPF_K, AUDIT_ARCH_X86_64, 1, 0);
  ST(BPF_RET | BPF_K, SECCOMP_RET_ALLOW);
  ST(BPF_LD | BPF_W | BPF_ABS, 0);                                   // nr
  // NT compare instructions; a match jumps to the cookie check placed after "ret allow"
  for (int i = 0; i < NT; ++i)
    JP(BPF_JMP | BPF_JEQ | BPF_K, (unsigned) trapped[i], NT - i, 0);
  ST(BPF_RET | BPF_K, SECCOMP_RET_ALLOW);
  ST(BPF_LD | BPF_W | BPF_ABS, 16 + 5 * 8);                          // args[5] low
  JP(BPF_JMP | BPF_JEQ | BPF_K, (unsigned) (COOKIE & 0xffffffffUL), 0, 3);
  ST(BPF_LD | BPF_W | BPF_ABS, 16 + 5 * 8 + 4);                      // args[5] high
  JP(BPF_JMP | BPF_JEQ | BPF_K, (unsigned) (COOKIE >> 32), 0, 1);
  ST(BPF_RET | BPF_K, SECCOMP_RET_ALLOW);
  ST(BPF_RET | BPF_K, SECCOMP_RET_TRAP);
#undef ST
#undef JP
  struct sock_fprog fp; fp.len = (unsigned short) n; fp.filter = prog;
  if (prctl(PR_SET_NO_NEW_PRIVS, 1, 0, 0, 0) != 0) return false;
  if (syscall(SYS_seccomp, SECCOMP_SET_MODE_FILTER, 0, &fp) != 0) return false;
  S->active = 1;
  return true;
}

// ---------------------------------------------------------------------------
// system() helper: a process forked before the filter is installed.  The
// filter survives execve but the SIGSYS handler does not, so commands run by
// the tool itself would be killed at their first write().

static int h_cmd_w = -1, h_res_r = -1;
static pid_t h_pid = -1;

int simf_helper_start()
{
  int c[2], r[2];
  if (pipe(c) || pipe(r)) return -1;
  pid_t p = fork();
  if (p < 0) return -1;
  if (p == 0)
    {
      close(c[1]); close(r[0]);
      signal(SIGPIPE, SIG_IGN);
      for (;;)
	{
	  unsigned len;
	  ssize_t n = read(c[0], &len, sizeof len);
	  if (n != (ssize_t) sizeof len || len > (1u << 20)) _exit(0);
	  char *buf = (char *) malloc(len + 1);
	  size_t got = 0;
	  while (got < len) { n = read(c[0], buf + got, len - got); if (n <= 0) _exit(0); got += (size_t) n; }
	  buf[len] = 0;
	  int st = system(buf);
	  free(buf);
	  if (write(r[1], &st, sizeof st) != (ssize_t) sizeof st) _exit(0);
	}
    }
  close(c[0]); close(r[1]);
  h_cmd_w = c[1]; h_res_r = r[0]; h_pid = p;
  return 0;
}

bool simf_helper_active() { return h_pid > 0; }

int simf_helper_system(const char *cmd)
{
  if (S) maybe_party(-1, -1, S->system_calls);
  if (S && S->system_calls < 4) S->bytes_at_system[S->system_calls] = S->nobj > 0 ? S->obj[0].bytes_w : 0;
  if (S) ++S->system_calls;
  return helper_run(cmd);
}

static int helper_run(const char *cmd)
{
  unsigned len = (unsigned) strlen(cmd);
  if (h_pid <= 0) return -1;
  if (pass(SYS_write, h_cmd_w, (long) &len, sizeof len, 0, 0) != (long) sizeof len) return -1;
  size_t off = 0;
  while (off < len)
    {
      long n = pass(SYS_write, h_cmd_w, (long) (cmd + off), len - off, 0, 0);
      if (n <= 0) return -1;
      off += (size_t) n;
    }
  int st = -1;
  size_t got = 0;
  while (got < sizeof st)
    {
      long n = pass(SYS_read, h_res_r, (long) ((char *) &st + got), sizeof st - got, 0, 0);
      if (n <= 0) return -1;
      got += (size_t) n;
    }
  return st;
}
