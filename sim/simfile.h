// SIM-F: the simulated file layer.  A seccomp-BPF filter traps the file
// system calls of the run child; a SIGSYS handler decides, per call on a
// *simulated disk object*, whether it is executed, shortened, failed, or is
// the instant at which the process crashes.  Everything the handler touches
// lives in one MAP_SHARED page so that the parent (worker server) can read
// the counters after the child is gone.
#ifndef SIM_FILE_H
#define SIM_FILE_H
#include <stdint.h>
#include <stddef.h>

enum { SF_MAX_OBJ = 8, SF_MAX_FAULT = 32 };
enum SfOp { SF_WRITE = 0, SF_READ = 1, SF_CLOSE = 2, SF_FSYNC = 3, SF_OPEN = 4, SF_NOPS = 5 };
enum SfKind { SFK_ERROR = 0, SFK_SHORT = 1, SFK_CRASH = 2, SFK_EOF = 3 };

struct SfObj
{
  char path[480];
  int  match;          // 0 exact path, 1 path prefix, 2 fixed fd (stdout)
  int  fd_fixed;
  long calls[SF_NOPS]; // calls seen per operation class
  long bytes_w, bytes_r;
  long bytes_w_requested;
  int  sticky_errno;   // non-zero: every later write-class call fails with it
  int  failed_ops;     // number of calls on this object that returned an injected error
  int  close_failed;
  int  opened;
};

struct SfFault
{
  int  obj, op, kind, err;
  long k;              // index of the call (per object, per op class) the fault is attached to
  long bytes;          // SHORT: bytes moved; CRASH: bytes moved before the crash
  int  sticky;
  int  fired;
};

struct SfShared
{
  int  nobj, nfault;
  SfObj obj[SF_MAX_OBJ];
  SfFault fault[SF_MAX_FAULT];
  long trapped_total, passthrough_total;
  uint64_t io_hash;    // FNV over (object, op, requested size, result) of every call on a simulated object
  long io_events;
  int  crashed;        // the simulator ended the process (crash fault)
  int  active;
  int  system_calls;   // system() commands executed through the helper
  long bytes_at_system[4]; // bytes that had reached object 0 when the n-th system() command started
  int  party_fired[4];     // "another process ran here": see simf_add_party
  int  party_status[4];
};

SfShared *simf_shared();              // allocates the shared page on first use (call before fork)
void simf_reset();
int  simf_add_object(const char *path, int match, int fd_fixed);
int  simf_add_fault(int obj, int op, long k, int kind, int err, long bytes, int sticky);
bool simf_install();                  // in the run child, just before the tool's main
int  simf_helper_start();             // fork the system() helper (before simf_install)
bool simf_helper_active();
int  simf_helper_system(const char *cmd);
// A second party: 'cmd' (a complete action of another process, e.g. a concurrent instance of the same tool working on
// a file of the same name) is executed by the helper at the instant just before the k-th call of class 'op' on object
// 'obj' - or, with op = -1, just before the k-th system() command of the tool.  The tool is stopped meanwhile, so the
// interleaving of the two processes is decided by the simulator at system-call granularity.
int  simf_add_party(int obj, int op, long k, const char *cmd);
// I/O scheduling points: 'fn' is called just before every open and close of a simulated object (typically everything
// under one directory prefix).  With the SIM-T scheduler behind it, what two threads do to the same files between two
// synchronisation operations (write a file, read it back) can interleave.  Safe places to park a thread: no libc-wide
// lock is held around the open and close system calls.
void simf_set_io_yield(void (*fn)(const char *what));
enum { SIMF_CRASH_EXIT = 111 };
#endif
