#include "simalloc.h"
void simalloc_activate(uint64_t, int) {}
void simalloc_stats(long *a, long *b, uint64_t *h) { *a = 0; *b = 0; *h = 0; }
