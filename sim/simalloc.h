// SIM-M: seeded heap layout.  Real implementation (simalloc.cc) is linked into
// the 'plain' variant only; the sanitizer variants link simalloc_stub.cc.
#ifndef SIM_ALLOC_H
#define SIM_ALLOC_H
#include <stdint.h>
void simalloc_activate(uint64_t seed, int poison);
void simalloc_stats(long *allocs, long *bytes, uint64_t *addr_hash);
#endif
