// SIM-M: a heap whose layout is a pure function of the run seed.
//
// The 'plain' simulator executables define the malloc family themselves
// (exported with -rdynamic so that libxml2, elfutils and libstdc++ use them
// too).  Until simalloc_activate() is called every request is forwarded to
// glibc.  After activation (in the forked run child, before the tool's main)
// new blocks come from a private arena whose base address, sub-arena choice,
// inter-block padding, free-list reuse order and poison bytes are all drawn
// from one PRNG seeded by the run seed.  Blocks allocated before activation
// stay glibc's and are freed through glibc.
#include "simalloc.h"
#include "prng.h"
#include <stddef.h>
#include <stdint.h>
#include <string.h>
#include <errno.h>
#include <unistd.h>
#include <dlfcn.h>
#include <sys/mman.h>
#include <sys/syscall.h>
#include <stdio.h>
#include <stdlib.h>
#include <fcntl.h>

extern "C" {
void *__libc_malloc(size_t);
void __libc_free(void *);
void *__libc_calloc(size_t, size_t);
void *__libc_realloc(void *, size_t);
void *__libc_memalign(size_t, size_t);
}

namespace {

enum { NARENA = 4, NCLASS = 48 };
const size_t ARENA_BYTES = (size_t) 24 << 30;     // virtual reservation per sub-arena (MAP_NORESERVE)
const uint64_t MAGIC = 0x51a110c8d00dfeedULL;

struct Header            // sits immediately before the user pointer
{
  uint64_t magic;
  uint32_t size;         // user size
  uint16_t klass;        // size class, 0xffff = large
  uint8_t  arena;
  uint8_t  pad_;
  uint64_t block;        // address of the start of the block (for aligned allocations)
  uint64_t cap;          // usable capacity from the user pointer
};

struct FreeNode { FreeNode *next; };

bool g_active;
int getenv_dbg;
Prng g_rng(1);
char *g_base[NARENA], *g_cur[NARENA], *g_end[NARENA];
FreeNode *g_free[NARENA][NCLASS];
FreeNode *g_free_tail[NARENA][NCLASS];
int g_reuse_mode;        // 0 LIFO, 1 FIFO, 2 mostly LIFO with random skips
int g_poison_new, g_poison_free;
bool g_poison;
int g_lock;
long g_allocs, g_bytes;
uint64_t g_addr_hash = FNV_INIT;
size_t (*g_real_usable)(void *);

inline void lock() { while (__atomic_exchange_n(&g_lock, 1, __ATOMIC_ACQUIRE)) {} }
inline void unlock() { __atomic_store_n(&g_lock, 0, __ATOMIC_RELEASE); }

inline bool ours(const void *p)
{
  for (int a = 0; a < NARENA; ++a)
    if (g_base[a] && (const char *) p >= g_base[a] && (const char *) p < g_end[a]) return true;
  return false;
}

// size classes: 16-byte steps up to 256, then powers of two with 4 steps each
size_t class_size(int k)
{
  if (k < 16) return (size_t) (k + 1) * 16;
  int e = (k - 16) / 4, s = (k - 16) % 4;
  size_t base = (size_t) 256 << e;
  return base + (base / 4) * (size_t) (s + 1);
}

int size_class(size_t n)
{
  if (n <= 256) return n == 0 ? 0 : (int) ((n - 1) / 16);
  for (int k = 16; k < NCLASS; ++k)
    if (class_size(k) >= n) return k;
  return -1;
}

void *carve(int a, size_t bytes)
{
  // random inter-block padding, 16-byte granular
  size_t pad = (size_t) g_rng.below(5) * 16;
  if (g_rng.chance(1, 64)) pad += (size_t) g_rng.below(64) * 16;
  char *p = g_cur[a] + pad;
  if (p + bytes > g_end[a]) return 0;
  g_cur[a] = p + bytes;
  return p;
}

void *alloc_block(size_t n, size_t align)
{
  if (align < 16) align = 16;
  int a = (int) g_rng.below(NARENA);
  size_t need = n + sizeof(Header) + (align > 16 ? align : 0);
  int k = align > 16 ? -1 : size_class(n);
  char *block = 0;
  size_t cap;
  if (k >= 0)
    {
      cap = class_size(k);
      FreeNode *f = g_free[a][k];
      if (f)
	{
	  bool take = true;
	  if (g_reuse_mode == 2 && g_rng.chance(1, 4)) take = false; // sometimes leave the free block alone
	  if (take)
	    {
	      g_free[a][k] = f->next;
	      if (!g_free[a][k]) g_free_tail[a][k] = 0;
	      block = (char *) f;
	    }
	}
      if (!block) block = (char *) carve(a, cap + sizeof(Header));
    }
  else
    {
      cap = (need + 4095) & ~(size_t) 4095;
      block = (char *) carve(a, cap);
      cap -= sizeof(Header);
    }
  if (!block) { errno = ENOMEM; return 0; }
  char *user = block + sizeof(Header);
  if (align > 16)
    {
      uintptr_t u = ((uintptr_t) user + align - 1) & ~(uintptr_t) (align - 1);
      user = (char *) u;
      cap = (size_t) (block + ((need + 4095) & ~(size_t) 4095) - user);
    }
  Header *h = (Header *) (user - sizeof(Header));
  h->magic = MAGIC; h->size = (uint32_t) (n > 0xffffffffu ? 0xffffffffu : n); h->klass = (uint16_t) (k >= 0 ? k : 0xffff);
  h->arena = (uint8_t) a; h->block = (uint64_t) (uintptr_t) block; h->cap = cap;
  if (g_poison) memset(user, g_poison_new, n);
  ++g_allocs; g_bytes += (long) n;
  if (g_allocs <= 4096) { uintptr_t u = (uintptr_t) user; g_addr_hash = fnv1a(g_addr_hash, &u, sizeof u); }
  if (getenv_dbg) { char b[64]; int k = snprintf(b, sizeof b, "A %zu %d\n", n, (int) syscall(SYS_gettid)); if (write(getenv_dbg, b, k) < 0) {} }
  return user;
}

void free_block(void *p)
{
  Header *h = (Header *) ((char *) p - sizeof(Header));
  if (h->magic != MAGIC) return;            // not ours after all (or double free): leave it
  if (getenv_dbg) { char b[64]; int k = snprintf(b, sizeof b, "F %u %d\n", h->size, (int) syscall(SYS_gettid)); if (write(getenv_dbg, b, k) < 0) {} }
  int a = h->arena, k = h->klass;
  size_t cap = (size_t) h->cap;
  h->magic = 0;
  if (k == 0xffff)
    {
      // large block: give the pages back so that a stale pointer faults
      char *b = (char *) (uintptr_t) h->block;
      size_t len = ((char *) p + cap) - b;
      madvise(b, len & ~(size_t) 4095, MADV_DONTNEED);
      return;
    }
  if (g_poison) memset(p, g_poison_free, cap);
  FreeNode *f = (FreeNode *) (uintptr_t) h->block;
  f->next = 0;
  if (g_reuse_mode == 1)
    {
      if (g_free_tail[a][k]) g_free_tail[a][k]->next = f; else g_free[a][k] = f;
      g_free_tail[a][k] = f;
    }
  else
    {
      f->next = g_free[a][k];
      g_free[a][k] = f;
      if (!g_free_tail[a][k]) g_free_tail[a][k] = f;
    }
}

size_t usable(void *p)
{
  Header *h = (Header *) ((char *) p - sizeof(Header));
  return h->magic == MAGIC ? (size_t) h->cap : 0;
}

} // namespace

void simalloc_activate(uint64_t seed, int poison)
{
  g_rng.reseed(seed ^ 0x6d616c6c6f63ULL);
  g_real_usable = (size_t (*)(void *)) dlsym(RTLD_NEXT, "malloc_usable_size");
  // the arena base is part of the seeded layout: 47-bit user space, keep clear of the usual mmap and brk areas
  for (int a = 0; a < NARENA; ++a)
    {
      uintptr_t hint = 0x100000000000ULL + ((uintptr_t) a << 40) + ((uintptr_t) g_rng.below(1u << 20) << 16);
      void *m = mmap((void *) hint, ARENA_BYTES, PROT_READ | PROT_WRITE, MAP_PRIVATE | MAP_ANONYMOUS | MAP_NORESERVE | MAP_FIXED_NOREPLACE, -1, 0);
      if (m == MAP_FAILED) m = mmap((void *) hint, ARENA_BYTES, PROT_READ | PROT_WRITE, MAP_PRIVATE | MAP_ANONYMOUS | MAP_NORESERVE, -1, 0);
      if (m == MAP_FAILED) { static const char e[] = "SIM-M: cannot reserve the arena\n"; ssize_t r = write(2, e, sizeof e - 1); (void) r; _exit(116); }
      madvise(m, ARENA_BYTES, MADV_NOHUGEPAGE);
      g_base[a] = (char *) m; g_end[a] = g_base[a] + ARENA_BYTES;
      g_cur[a] = g_base[a] + (size_t) g_rng.below(4096) * 16;
    }
  g_reuse_mode = (int) g_rng.below(3);
  g_poison = poison != 0;
  static const int bytes[] = { 0x00, 0xaa, 0x55, 0xff, 0xcd, 0x7f };
  g_poison_new = bytes[g_rng.below(6)];
  g_poison_free = bytes[g_rng.below(6)];
  if (const char *d = getenv("SIMM_DEBUG_LOG")) getenv_dbg = open(d, O_WRONLY | O_CREAT | O_TRUNC, 0644);
  g_active = true;
}

void simalloc_stats(long *allocs, long *bytes, uint64_t *addr_hash)
{ *allocs = g_allocs; *bytes = g_bytes; *addr_hash = g_active ? g_addr_hash : 0; }

extern "C" {

__attribute__((visibility("default"))) void *malloc(size_t n)
{
  if (!g_active) return __libc_malloc(n);
  lock(); void *p = alloc_block(n, 16); unlock();
  return p;
}

__attribute__((visibility("default"))) void free(void *p)
{
  if (!p) return;
  if (g_active && ours(p)) { lock(); free_block(p); unlock(); return; }
  __libc_free(p);
}

__attribute__((visibility("default"))) void *calloc(size_t a, size_t b)
{
  if (!g_active) return __libc_calloc(a, b);
  size_t n;
  if (__builtin_mul_overflow(a, b, &n)) { errno = ENOMEM; return 0; }
  lock(); void *p = alloc_block(n, 16); unlock();
  if (p) memset(p, 0, n);
  return p;
}

__attribute__((visibility("default"))) void *realloc(void *p, size_t n)
{
  if (!g_active) return __libc_realloc(p, n);
  if (!p) return malloc(n);
  if (n == 0) { free(p); return 0; }
  size_t old;
  if (ours(p)) { old = ((Header *) ((char *) p - sizeof(Header)))->size; }
  else old = g_real_usable ? g_real_usable(p) : 0;
  lock(); void *q = alloc_block(n, 16); unlock();
  if (!q) return 0;
  memcpy(q, p, old < n ? old : n);
  free(p);
  return q;
}

__attribute__((visibility("default"))) void *memalign(size_t al, size_t n)
{
  if (!g_active) return __libc_memalign(al, n);
  lock(); void *p = alloc_block(n, al); unlock();
  return p;
}

__attribute__((visibility("default"))) void *aligned_alloc(size_t al, size_t n) { return memalign(al, n); }

__attribute__((visibility("default"))) int posix_memalign(void **out, size_t al, size_t n)
{
  if (al < sizeof(void *) || (al & (al - 1))) return EINVAL;
  void *p = memalign(al, n);
  if (!p) return ENOMEM;
  *out = p;
  return 0;
}

__attribute__((visibility("default"))) void *valloc(size_t n) { return memalign(4096, n); }
__attribute__((visibility("default"))) void *pvalloc(size_t n) { return memalign(4096, (n + 4095) & ~(size_t) 4095); }

__attribute__((visibility("default"))) size_t malloc_usable_size(void *p)
{
  if (!p) return 0;
  if (g_active && ours(p)) return usable(p);
  if (!g_real_usable) g_real_usable = (size_t (*)(void *)) dlsym(RTLD_NEXT, "malloc_usable_size");
  return g_real_usable ? g_real_usable(p) : 0;
}

} // extern "C"
