// Worker server: runs one libabigail tool's real main() per simulated run in a
// forked child, with the seams requested by the run specification switched on
// (SIM-F file layer, SIM-T thread scheduler, SIM-M allocator/environment).
// One JSON run specification per line on stdin, one JSON result per line on
// stdout.  The server itself is single threaded and never touches iostreams.
#include "json.h"
#include "prng.h"
#include "simfile.h"
#include "simsched.h"
#include "simalloc.h"
#include <stdio.h>
#include <stdlib.h>
#include <string.h>
#include <unistd.h>
#include <errno.h>
#include <fcntl.h>
#include <signal.h>
#include <time.h>
#include <sys/stat.h>
#include <sys/wait.h>
#include <sys/time.h>
#include <sys/resource.h>
#include <sys/mman.h>
#include <sys/mount.h>
#include <sched.h>
#include <string>
#include <vector>

#ifndef TOOL_MAIN
#error "compile with -DTOOL_MAIN=<tool>_main"
#endif
extern int TOOL_MAIN(int, char **);

extern "C" const char *__asan_default_options() __attribute__((used, visibility("default")));
extern "C" const char *__asan_default_options()
{ return "exitcode=77:detect_leaks=0:abort_on_error=0:handle_abort=1:handle_sigfpe=1:allocator_may_return_null=1:detect_stack_use_after_return=0:max_allocation_size_mb=1024:malloc_context_size=0:symbolize=0"; }
extern "C" const char *__tsan_default_options() __attribute__((used, visibility("default")));
extern "C" const char *__tsan_default_options() { return "exitcode=0:halt_on_error=0:report_signal_unsafe=0:die_after_fork=0"; }

extern "C" int __real_system(const char *);
extern "C" char *__real_mkdtemp(char *);

// results of the child that the parent needs, in shared memory
struct ChildShared
{
  int simt_used;
  SimStats st;
  char fatal_class[64];
  char fatal_details[2048];
  long tsan_reports;
  int reached_exit;     // the tool's main returned (or called exit) normally
  int main_rc;
  int helper_system_status[4];
  int mkdtemp_calls;
  int private_tmp;
  int bad_spec;
  long long spec_id;
  long cpu_limit_s;
  long simm_allocs, simm_bytes;
  uint64_t simm_addr_hash;
};
static ChildShared *CS;

static void write_decisions();

static void child_atexit()
{
  if (CS)
    {
      if (CS->simt_used && sim_sched_active())
	{
	  if (const char *d = getenv("SIMT_DUMP_LOG"))      // development aid: the event log of the run
	    if (FILE *f = fopen(d, "w")) { std::string l = sim_dump_log(1000000); fwrite(l.data(), 1, l.size(), f); fclose(f); }
	  sim_sched_end(&CS->st); write_decisions();
	}
      CS->tsan_reports = sim_tsan_reports();
      CS->reached_exit = 1;
      simalloc_stats(&CS->simm_allocs, &CS->simm_bytes, &CS->simm_addr_hash);
    }
}

static std::string g_decisions_out;

static void write_decisions()
{
  if (g_decisions_out.empty()) return;
  FILE *f = fopen(g_decisions_out.c_str(), "w");
  if (!f) return;
  const std::vector<SimDecision> &d = sim_decisions();
  fputc('[', f);
  for (size_t i = 0; i < d.size(); ++i)
    fprintf(f, "%s[\"%c\",%d,%d,%d]", i ? "," : "", d[i].kind, d[i].n, d[i].chosen, d[i].dflt);
  fputs("]\n", f);
  fclose(f);
}

static void simt_fatal(const char *klass, const std::string &details)
{
  if (CS)
    {
      strncpy(CS->fatal_class, klass, sizeof(CS->fatal_class) - 1);
      strncpy(CS->fatal_details, details.c_str(), sizeof(CS->fatal_details) - 1);
      sim_sched_end(&CS->st);
    }
  write_decisions();
  _exit(112);
}

static int g_mkdtemp_counter;

static void io_yield(const char *what)
{
  if (sim_sched_active()) sim_yield(what);
}

extern "C" int __wrap_system(const char *cmd)
{
  if (sim_sched_active()) sim_yield("system");
  if (simf_helper_active() && cmd)
    {
      int st = simf_helper_system(cmd);
      return st;
    }
  return __real_system(cmd);
}

extern "C" char *__wrap_mkdtemp(char *tmpl)
{
  // deterministic suffix: the run owns its TMPDIR, so names need not be random
  size_t n = strlen(tmpl);
  if (n < 6 || strcmp(tmpl + n - 6, "XXXXXX")) { errno = EINVAL; return 0; }
  for (int tries = 0; tries < 1000; ++tries)
    {
      char suf[8];
      snprintf(suf, sizeof suf, "s%05d", g_mkdtemp_counter++ % 100000);
      memcpy(tmpl + n - 6, suf, 6);
      if (mkdir(tmpl, 0700) == 0) { if (CS) ++CS->mkdtemp_calls; return tmpl; }
      if (errno != EEXIST) return 0;
    }
  errno = EEXIST;
  return 0;
}

static long now_ms()
{
  struct timespec ts; clock_gettime(CLOCK_MONOTONIC, &ts);
  return ts.tv_sec * 1000L + ts.tv_nsec / 1000000L;
}

static int op_code(const std::string &s)
{
  return s == "write" ? SF_WRITE : s == "read" ? SF_READ : s == "close" ? SF_CLOSE : s == "fsync" ? SF_FSYNC : s == "open" ? SF_OPEN : -1;
}
static int kind_code(const std::string &s)
{
  return s == "error" ? SFK_ERROR : s == "short" ? SFK_SHORT : s == "crash" ? SFK_CRASH : s == "eof" ? SFK_EOF : -1;
}

static void run_child(const JVal &spec)
{
  // --- limits
  long cpu = (long) spec.num("cpu_limit_s", 20);
  struct rlimit rl; rl.rlim_cur = (rlim_t) cpu; rl.rlim_max = (rlim_t) cpu + 2; setrlimit(RLIMIT_CPU, &rl);
  rl.rlim_cur = rl.rlim_max = 0; setrlimit(RLIMIT_CORE, &rl);
  long fsz = (long) spec.num("fsize_limit_mb", 512);
  rl.rlim_cur = rl.rlim_max = (rlim_t) fsz << 20; setrlimit(RLIMIT_FSIZE, &rl);
  // --- environment
  if (const JVal *env = spec.get("env"))
    {
      clearenv();
      for (size_t i = 0; i < env->o.size(); ++i) setenv(env->o[i].first.c_str(), env->o[i].second.s.c_str(), 1);
    }
  std::string cwd = spec.str("cwd");
  if (!cwd.empty() && chdir(cwd.c_str()) != 0) { perror("chdir"); _exit(113); }
  // --- standard streams
  std::string in = spec.str("stdin", "/dev/null"), out = spec.str("stdout", "/dev/null"), err = spec.str("stderr", "/dev/null");
  int fd = open(in.c_str(), O_RDONLY); if (fd < 0) { perror("stdin"); _exit(113); } dup2(fd, 0); if (fd > 2) close(fd);
  int oflags = O_WRONLY | O_CREAT | (spec.num("stdout_append", 0) ? O_APPEND : O_TRUNC);
  fd = open(out.c_str(), oflags, 0644); if (fd < 0) { perror("stdout"); _exit(113); } dup2(fd, 1); if (fd > 2) close(fd);
  fd = open(err.c_str(), O_WRONLY | O_CREAT | O_TRUNC, 0644); if (fd < 0) _exit(113); dup2(fd, 2); if (fd > 2) close(fd);
  // --- argv
  std::vector<std::string> args;
  if (const JVal *a = spec.get("argv")) for (size_t i = 0; i < a->a.size(); ++i) args.push_back(a->a[i].s);
  if (args.empty()) args.push_back("tool");
  std::vector<char *> argv;
  for (size_t i = 0; i < args.size(); ++i) argv.push_back(const_cast<char *>(args[i].c_str()));
  argv.push_back(0);
  atexit(child_atexit);
  // --- private /tmp: the tools hard-code /tmp for their temporary files; give the run (and its helper / second party)
  // a /tmp of its own so that runs executing in parallel on this machine cannot meet there
  if (spec.num("private_tmp", 0))
    {
      bool ok = unshare(CLONE_NEWNS) == 0 && mount(0, "/", 0, MS_REC | MS_PRIVATE, 0) == 0
		&& mount("tmpfs", "/tmp", "tmpfs", 0, "size=512m,mode=1777") == 0;
      CS->private_tmp = ok ? 1 : -1;
    }
  // --- SIM-M
  if (const JVal *m = spec.get("simm"))
    if (m->t == JVal::OBJ)
      simalloc_activate((uint64_t) m->num("seed", 1), (int) m->num("poison", 1));
  // --- SIM-F
  if (const JVal *f = spec.get("simf"))
    if (f->t == JVal::OBJ)
      {
	simf_reset();
	if (const JVal *objs = f->get("objects"))
	  for (size_t i = 0; i < objs->a.size(); ++i)
	    {
	      const JVal &o = objs->a[i];
	      if (o.has("fd")) simf_add_object(0, 2, (int) o.num("fd", 1));
	      else if (o.has("prefix")) simf_add_object(o.str("prefix").c_str(), 1, -1);
	      else simf_add_object(o.str("path").c_str(), 0, -1);
	    }
	if (const JVal *fl = f->get("faults"))
	  for (size_t i = 0; i < fl->a.size(); ++i)
	    {
	      const JVal &x = fl->a[i];
	      simf_add_fault((int) x.num("obj", 0), op_code(x.str("op", "write")), (long) x.num("k", 0), kind_code(x.str("kind", "error")),
			     (int) x.num("errno", EIO), (long) x.num("bytes", 0), (int) x.num("sticky", 0));
	    }
	if (const JVal *pl = f->get("parties"))
	  for (size_t i = 0; i < pl->a.size(); ++i)
	    {
	      const JVal &x = pl->a[i];
	      std::string at = x.str("at", "system");
	      simf_add_party(at == "system" ? -1 : (int) x.num("obj", 0), at == "system" ? -1 : op_code(at), (long) x.num("k", 0), x.str("cmd").c_str());
	    }
	if (f->num("io_yield", 0)) simf_set_io_yield(io_yield);
	if (f->num("helper", 0)) simf_helper_start();
	if (!simf_install()) { fprintf(stderr, "SIM-F: cannot install seccomp filter: %s\n", strerror(errno)); _exit(114); }
      }
  // --- SIM-T
  if (const JVal *t = spec.get("simt"))
    if (t->t == JVal::OBJ)
      {
	SimConfig c;
	c.seed = (uint64_t) t->num("seed", 1);
	c.policy = (int) t->num("policy", 0);
	c.pct_depth = (int) t->num("pct_depth", 2);
	c.pct_len = (int) t->num("pct_len", 400);
	c.sticky_permille = (int) t->num("sticky_permille", 850);
	c.quantum = (int) t->num("quantum", 3);
	c.spurious_budget = (int) t->num("spurious_budget", 0);
	c.spurious_permille = (int) t->num("spurious_permille", 0);
	c.starve_victim = (int) t->num("starve_victim", -1);
	c.starve_from = (long) t->num("starve_from", 0);
	c.starve_len = (long) t->num("starve_len", 0);
	c.preempt_budget = (int) t->num("preempt_budget", 0);
	c.preempt_gap_log2 = (int) t->num("preempt_gap_log2", 10);
	c.first_use_delay = (int) t->num("first_use_delay", 0);
	c.nprocs = (int) t->num("nprocs", 4);
	c.max_steps = (long) t->num("max_steps", 2000000);
	c.stall_seconds = (int) t->num("stall_seconds", 300);
	if (const JVal *d = t->get("decisions"))
	  if (d->t == JVal::ARR)
	    {
	      c.use_replay = true;
	      for (size_t i = 0; i < d->a.size(); ++i) c.replay.push_back((int) d->a[i].n);
	    }
	CS->simt_used = 1;
	g_decisions_out = t->str("decisions_out");
	sim_tsan_tag(c.seed);
	sim_sched_begin(c, simt_fatal);
      }
  int rc = TOOL_MAIN((int) args.size(), &argv[0]);
  CS->main_rc = rc;
  if (CS->simt_used) { sim_sched_end(&CS->st); write_decisions(); }
  exit(rc);
}


// the part of a result record that comes from the run child (shared page)
static void print_child_info(FILE *resf)
{
  SfShared *S = simf_shared();
#define printf(...) fprintf(resf, __VA_ARGS__)
      printf(",\"tsan_reports\":%ld,\"mkdtemp_calls\":%d,\"private_tmp\":%d", CS->tsan_reports, CS->mkdtemp_calls, CS->private_tmp);
      if (S->active)
	{
	  printf(",\"simf\":{\"crashed\":%d,\"trapped\":%ld,\"passthrough\":%ld,\"io_hash\":\"%016llx\",\"io_events\":%ld,\"system_calls\":%d,\"bytes_at_system\":[%ld,%ld],\"objects\":[",
		 S->crashed, S->trapped_total, S->passthrough_total, (unsigned long long) S->io_hash, S->io_events, S->system_calls,
		 S->bytes_at_system[0], S->bytes_at_system[1]);
	  for (int i = 0; i < S->nobj; ++i)
	    {
	      const SfObj &o = S->obj[i];
	      printf("%s{\"writes\":%ld,\"reads\":%ld,\"closes\":%ld,\"fsyncs\":%ld,\"opens\":%ld,\"bytes_w\":%ld,\"bytes_w_requested\":%ld,\"bytes_r\":%ld,\"failed_ops\":%d,\"close_failed\":%d}",
		     i ? "," : "", o.calls[SF_WRITE], o.calls[SF_READ], o.calls[SF_CLOSE], o.calls[SF_FSYNC], o.calls[SF_OPEN], o.bytes_w,
		     o.bytes_w_requested, o.bytes_r, o.failed_ops, o.close_failed);
	    }
	  printf("],\"fired\":[");
	  for (int i = 0; i < S->nfault; ++i) printf("%s%d", i ? "," : "", S->fault[i].fired);
	  printf("],\"parties\":[");
	  for (int i = 0; i < 4; ++i) printf("%s[%d,%d]", i ? "," : "", S->party_fired[i], S->party_status[i]);
	  printf("]}");
	}
      if (CS->simt_used)
	{
	  const SimStats &s = CS->st;
	  printf(",\"simt\":{\"steps\":%ld,\"switches\":%ld,\"threads\":%ld,\"lock_ops\":%ld,\"wait_ops\":%ld,\"signal_ops\":%ld,\"broadcast_ops\":%ld,"
		 "\"signals_lost_empty\":%ld,\"signal_choices\":%ld,\"spurious_fired\":%ld,\"starve_skips\":%ld,\"lock_contended\":%ld,\"max_enabled\":%ld,\"preemptions\":%ld,\"first_use_delays\":%ld,"
		 "\"log_hash\":\"%016llx\",\"sched_hash\":\"%016llx\",\"fatal_class\":\"%s\",\"fatal_details\":\"%s\"}",
		 s.steps, s.switches, s.threads_created, s.lock_ops, s.wait_ops, s.signal_ops, s.broadcast_ops, s.signals_lost_empty, s.signal_choices,
		 s.spurious_fired, s.starve_skips, s.lock_contended, s.max_enabled, s.preemptions, s.first_use_delays, (unsigned long long) s.log_hash, (unsigned long long) s.sched_hash,
		 jesc(CS->fatal_class).c_str(), jesc(CS->fatal_details).c_str());
	}
      if (CS->simm_allocs)
	printf(",\"simm\":{\"allocs\":%ld,\"bytes\":%ld,\"addr_hash\":\"%016llx\"}", CS->simm_allocs, CS->simm_bytes, (unsigned long long) CS->simm_addr_hash);
#undef printf
}

static const char *g_direct_result;
static void direct_atexit()
{
  // direct mode: this process is the run child; leave the child-side record where the orchestrator finds it
  if (!g_direct_result) return;
  FILE *f = fopen(g_direct_result, "w");
  if (!f) return;
  fprintf(f, "{\"reached_exit\":%d", CS->reached_exit);
  print_child_info(f);
  fprintf(f, "}\n");
  fclose(f);
}

int main(int argc, char **argv)
{
  signal(SIGPIPE, SIG_IGN);
  simf_shared();
  CS = (ChildShared *) mmap(0, sizeof(ChildShared), PROT_READ | PROT_WRITE, MAP_SHARED | MAP_ANONYMOUS, -1, 0);
  if (CS == MAP_FAILED) { perror("mmap"); return 2; }
  if (argc == 4 && !strcmp(argv[1], "--direct"))
    {
      // No fork (ThreadSanitizer cannot start threads in the child of a forked multi-threaded
      // process): run exactly one specification in this very process.
      FILE *sf = fopen(argv[2], "r");
      if (!sf) { perror(argv[2]); return 2; }
      char *l = 0; size_t c = 0;
      if (getline(&l, &c, sf) <= 0) return 2;
      fclose(sf);
      JParser jp(l);
      JVal spec = jp.parse();
      if (!jp.ok || spec.t != JVal::OBJ) { fprintf(stderr, "bad spec\n"); return 2; }
      memset(CS, 0, sizeof *CS);
      simf_reset();
      g_direct_result = argv[3];
      atexit(direct_atexit);
      signal(SIGPIPE, SIG_DFL);
      run_child(spec);
      return 115;
    }
  // The children inherit the server's stdio objects.  The server therefore never uses the FILE 'stdout'
  // (its buffering mode must be decided freshly by glibc in each child, from the child's own fd 1);
  // results go to a private stream on a duplicate of the server's fd 1.
  FILE *resf = fdopen(dup(1), "w");
  if (!resf) { perror("fdopen"); return 2; }
  static char resbuf[1 << 16];
  setvbuf(resf, resbuf, _IOFBF, sizeof resbuf);      // no heap buffer for the result stream either
  int res_fd = fileno(resf);
#define printf(...) fprintf(resf, __VA_ARGS__)
#define RESFLUSH() fflush(resf)
  // The children also inherit the server's *heap*: whatever the server allocated and freed so far decides the addresses
  // the tool will get from malloc, and libabigail's behaviour between synchronisation points (e.g. the order in which
  // files are opened) follows containers hashed on addresses.  So that the k-th run of a server and its first run start
  // from the very same heap, the server allocates nothing per request: the specification is read into a static buffer
  // with read(2) and parsed by the child; the two fields the server itself needs come back through the shared page.
  static char linebuf[1 << 20];
  for (;;)
    {
      size_t len = 0;
      bool eof = false;
      while (len < sizeof linebuf - 1)
	{
	  ssize_t n = read(0, linebuf + len, sizeof linebuf - 1 - len);
	  if (n < 0 && errno == EINTR) continue;
	  if (n <= 0) { eof = true; break; }
	  len += (size_t) n;
	  if (linebuf[len - 1] == '\n') break;       // one request at a time: the line ends where the data ends
	}
      if (eof && len == 0) break;
      linebuf[len] = 0;
      memset(CS, 0, sizeof *CS);
      CS->cpu_limit_s = 20;
      simf_reset();
      RESFLUSH(); fflush(stderr);
      long t0 = now_ms();
      pid_t pid = fork();
      if (pid < 0) { printf("{\"error\":\"fork failed\"}\n"); RESFLUSH(); continue; }
      if (pid == 0)
	{
	  signal(SIGPIPE, SIG_DFL);
	  close(res_fd);
	  JParser jp(linebuf);
	  JVal spec = jp.parse();
	  if (!jp.ok || spec.t != JVal::OBJ) { CS->bad_spec = 1; _exit(116); }
	  CS->spec_id = (long long) spec.num("id", 0);
	  CS->cpu_limit_s = (long) spec.num("cpu_limit_s", 20);
	  run_child(spec);
	  _exit(115);
	}
      int status = 0; struct rusage ru; memset(&ru, 0, sizeof ru);
      // real-time backstop only for the infrastructure (never a verdict): 20x the CPU limit
      bool wall_killed = false;
      for (;;)
	{
	  pid_t r = wait4(pid, &status, WNOHANG, &ru);
	  if (r == pid) break;
	  if (r < 0 && errno != EINTR) break;
	  long wall_limit_ms = CS->cpu_limit_s * 20000L + 60000L;      // set by the child as soon as it has parsed the specification
	  if (now_ms() - t0 > wall_limit_ms) { kill(pid, SIGKILL); wall_killed = true; wait4(pid, &status, 0, &ru); break; }
	  usleep(500);
	}
      if (CS->bad_spec) { printf("{\"error\":\"bad spec\"}\n"); RESFLUSH(); continue; }
      long t1 = now_ms();
      SfShared *S = simf_shared();
      long cpu_ms = ru.ru_utime.tv_sec * 1000L + ru.ru_utime.tv_usec / 1000L + ru.ru_stime.tv_sec * 1000L + ru.ru_stime.tv_usec / 1000L;
      printf("{\"id\":%lld,\"exit\":%d,\"signal\":%d,\"wall_killed\":%d,\"cpu_ms\":%ld,\"wall_ms\":%ld,\"reached_exit\":%d,\"maxrss_kb\":%ld",
	     CS->spec_id, WIFEXITED(status) ? WEXITSTATUS(status) : -1, WIFSIGNALED(status) ? WTERMSIG(status) : 0, (int) wall_killed,
	     cpu_ms, t1 - t0, CS->reached_exit, ru.ru_maxrss);
      print_child_info(resf);
      printf("}\n");
      RESFLUSH();
    }
  return 0;
}
