// One-seed discipline: every choice of a simulated run is drawn from one
// xoshiro256** stream seeded (via splitmix64) from the run seed.
#ifndef SIM_PRNG_H
#define SIM_PRNG_H
#include <stdint.h>
#include <stddef.h>

static inline uint64_t splitmix64_next(uint64_t &x)
{
  uint64_t z = (x += 0x9e3779b97f4a7c15ULL);
  z = (z ^ (z >> 30)) * 0xbf58476d1ce4e5b9ULL;
  z = (z ^ (z >> 27)) * 0x94d049bb133111ebULL;
  return z ^ (z >> 31);
}

// mix several integers into one seed (VERIF_SEED, property tag, scenario, run index)
static inline uint64_t mix_seed(uint64_t a, uint64_t b, uint64_t c, uint64_t d)
{
  uint64_t x = a;
  uint64_t r = splitmix64_next(x);
  x ^= b * 0x9e3779b97f4a7c15ULL + r; r = splitmix64_next(x);
  x ^= c * 0xc2b2ae3d27d4eb4fULL + r; r = splitmix64_next(x);
  x ^= d * 0x165667b19e3779f9ULL + r; r = splitmix64_next(x);
  return r;
}

struct Prng
{
  uint64_t s[4];
  explicit Prng(uint64_t seed = 1) { reseed(seed); }
  void reseed(uint64_t seed)
  { uint64_t x = seed; for (int i = 0; i < 4; ++i) s[i] = splitmix64_next(x); }
  static inline uint64_t rotl(uint64_t x, int k) { return (x << k) | (x >> (64 - k)); }
  uint64_t next()
  {
    uint64_t result = rotl(s[1] * 5, 7) * 9, t = s[1] << 17;
    s[2] ^= s[0]; s[3] ^= s[1]; s[1] ^= s[2]; s[0] ^= s[3]; s[2] ^= t; s[3] = rotl(s[3], 45);
    return result;
  }
  // uniform in [0,n), n>0
  uint64_t below(uint64_t n) { return n <= 1 ? 0 : next() % n; }
  // uniform in [lo,hi]
  int64_t range(int64_t lo, int64_t hi) { return lo + (int64_t) below((uint64_t)(hi - lo + 1)); }
  bool chance(unsigned num, unsigned den) { return below(den) < num; }
};

static inline uint64_t fnv1a(uint64_t h, const void *p, size_t n)
{
  const unsigned char *c = (const unsigned char *) p;
  for (size_t i = 0; i < n; ++i) { h ^= c[i]; h *= 0x100000001b3ULL; }
  return h;
}
static const uint64_t FNV_INIT = 0xcbf29ce484222325ULL;
#endif
