// SIM-T implementation.  See sched.h.  Compiled WITHOUT any sanitizer flags
// in every variant so that neither ASan nor TSan models the scheduler's own
// synchronisation (raw futexes).
#include "simsched.h"
#include "prng.h"
#include <pthread.h>
#include <unistd.h>
#include <stdio.h>
#include <stdlib.h>
#include <string.h>
#include <errno.h>
#include <signal.h>
#include <sys/syscall.h>
#include <linux/futex.h>
#include <map>
#include <set>
#include <algorithm>

extern "C" {
int __real_pthread_create(pthread_t *, const pthread_attr_t *, void *(*)(void *), void *);
int __real_pthread_join(pthread_t, void **);
int __real_pthread_mutex_lock(pthread_mutex_t *);
int __real_pthread_mutex_trylock(pthread_mutex_t *);
int __real_pthread_mutex_unlock(pthread_mutex_t *);
int __real_pthread_cond_wait(pthread_cond_t *, pthread_mutex_t *);
int __real_pthread_cond_timedwait(pthread_cond_t *, pthread_mutex_t *, const struct timespec *);
int __real_pthread_cond_signal(pthread_cond_t *);
int __real_pthread_cond_broadcast(pthread_cond_t *);
long __real_sysconf(int);
}

SimConfig::SimConfig()
  : seed(1), policy(POL_UNIFORM), pct_depth(2), pct_len(200), sticky_permille(850), quantum(3),
    spurious_budget(0), spurious_permille(0), starve_victim(-1), starve_from(0), starve_len(0), preempt_budget(0), preempt_gap_log2(10),
    first_use_delay(0), nprocs(4), max_steps(1000000), stall_seconds(120), use_replay(false)
{}

// Under TSan, libc functions such as memmove are intercepted even when called
// from this uninstrumented file (vector growth in the event log).  All runtime
// entry points therefore run with memory-access tracking ignored; this does
// not affect the synchronisation edges TSan derives from the real
// pthread_mutex_lock/unlock/create/join calls made on the program's behalf.
extern "C" void __tsan_ignore_thread_begin() __attribute__((weak));
extern "C" void __tsan_ignore_thread_end() __attribute__((weak));
static __thread int tl_in_runtime;   // >0 while this thread executes simulator code (its own allocations are not preemption points)
struct Ign
{
  Ign() { ++tl_in_runtime; if (__tsan_ignore_thread_begin) __tsan_ignore_thread_begin(); }
  ~Ign() { if (__tsan_ignore_thread_end) __tsan_ignore_thread_end(); --tl_in_runtime; }
};

namespace {

enum St { ST_RUN, ST_BLK_MUTEX, ST_BLK_COND, ST_BLK_JOIN, ST_DONE };

struct SimThread
{
  int id;
  pthread_t real;
  int futex;            // 0 parked, 1 go
  St st;
  void *waiting_on;     // mutex or cond
  void *cond_mutex;     // mutex to re-acquire after a cond wait
  int join_target;
  void *(*fn)(void *);
  void *arg;
  void *ret;
  long prio;            // PCT priority (higher runs first)
  long delayed_until;   // first-use delay: not picked before this decision number while others are enabled
  struct RealWorker *host; // pooled real thread running this simulated thread (non-TSan builds)
};

// Creating and destroying real threads is the dominant cost of a simulated
// run and contends on kernel-global locks when 16 simulator processes run
// side by side (measured: 18x slowdown).  Outside TSan builds, real threads
// are therefore pooled and re-used by later simulated threads.  Under TSan
// every simulated thread is a fresh real thread so that TSan sees the
// genuine create/join happens-before edges.
struct RealWorker
{
  pthread_t real;
  int futex;
  SimThread *job;
};

struct Event { long step; int tid; const char *op; long a, b; };

struct Sched
{
  bool active;
  SimConfig cfg;
  Prng rng;
  sim_fatal_cb fatal_cb;
  std::vector<SimThread *> threads;
  std::map<void *, int> mutex_owner;       // mutex -> thread id, -1 free
  std::map<void *, std::vector<int> > cond_waiters;
  std::map<void *, int> objid;             // first-use ordering of objects
  std::set<void *> mutex_requested;        // mutexes that have been requested at least once
  std::vector<Event> log;
  std::vector<SimDecision> decisions;
  SimStats st;
  int spurious_left;
  std::vector<long> pct_points;
  long pct_low;
  int rot_left;
  bool dying;
  Prng preempt_rng;
  int preempt_left;
  long next_preempt_at;
};

void reschedule_exit(SimThread *t);
Sched G;
std::vector<RealWorker *> g_idle;
std::vector<RealWorker *> g_all_workers;
inline bool use_pool() { return !__tsan_ignore_thread_begin; }
std::vector<SimHist> g_hist_store;
__thread SimThread *tl_self = 0;

inline long futex_call(int *addr, int op, int val)
{ return syscall(SYS_futex, addr, op, val, (void *) 0, (void *) 0, 0); }

void park(SimThread *t)
{
  while (__atomic_load_n(&t->futex, __ATOMIC_SEQ_CST) == 0)
    futex_call(&t->futex, FUTEX_WAIT_PRIVATE, 0);
  __atomic_store_n(&t->futex, 0, __ATOMIC_SEQ_CST);
}

void unpark(SimThread *t)
{
  __atomic_store_n(&t->futex, 1, __ATOMIC_SEQ_CST);
  futex_call(&t->futex, FUTEX_WAKE_PRIVATE, 1);
}

int obj_id(void *p)
{
  std::map<void *, int>::iterator i = G.objid.find(p);
  if (i != G.objid.end()) return i->second;
  int id = (int) G.objid.size();
  G.objid[p] = id;
  return id;
}

void ev(const char *op, long a = -1, long b = -1)
{
  Event e; e.step = G.st.steps; e.tid = tl_self ? tl_self->id : -1; e.op = op; e.a = a; e.b = b;
  G.log.push_back(e);
}

void fatal(const char *klass, const std::string &details)
{
  G.dying = true;
  if (G.fatal_cb) G.fatal_cb(klass, details);
  fprintf(stderr, "SIM-T fatal %s: %s\n", klass, details.c_str());
  _exit(3);
}

bool enabled(const SimThread *t)
{
  switch (t->st)
    {
    case ST_RUN: return true;
    case ST_BLK_MUTEX:
      {
	std::map<void *, int>::iterator i = G.mutex_owner.find(t->waiting_on);
	return i == G.mutex_owner.end() || i->second < 0;
      }
    case ST_BLK_JOIN: return G.threads[t->join_target]->st == ST_DONE;
    default: return false;
    }
}

// A single stream of decisions.  In PRNG mode 'pick' supplies the value; in
// replay mode it comes from the list (modulo n), default when absent or -1.
int decide(char kind, int n, int dflt, int pick)
{
  int chosen;
  if (G.cfg.use_replay)
    {
      size_t k = G.decisions.size();
      int v = k < G.cfg.replay.size() ? G.cfg.replay[k] : -1;
      chosen = v < 0 ? dflt : v % n;
    }
  else
    chosen = pick;
  SimDecision d; d.kind = kind; d.n = n; d.chosen = chosen; d.dflt = dflt;
  G.decisions.push_back(d);
  return chosen;
}

void wake_waiter(void *cond, int idx_in_waitset)
{
  std::vector<int> &w = G.cond_waiters[cond];
  int tid = w[idx_in_waitset];
  w.erase(w.begin() + idx_in_waitset);
  SimThread *t = G.threads[tid];
  t->st = ST_BLK_MUTEX;
  t->waiting_on = t->cond_mutex;
}

void maybe_spurious()
{
  if (G.spurious_left <= 0) return;
  // all current waiters, ordered by (cond first-use id, position)
  std::vector<std::pair<void *, int> > all;
  std::vector<std::pair<int, void *> > conds;
  for (std::map<void *, std::vector<int> >::iterator i = G.cond_waiters.begin(); i != G.cond_waiters.end(); ++i)
    if (!i->second.empty()) conds.push_back(std::make_pair(obj_id(i->first), i->first));
  if (conds.empty()) return;
  std::sort(conds.begin(), conds.end());
  for (size_t c = 0; c < conds.size(); ++c)
    for (size_t k = 0; k < G.cond_waiters[conds[c].second].size(); ++k)
      all.push_back(std::make_pair(conds[c].second, (int) k));
  int pick = 0;
  if (!G.cfg.use_replay && G.rng.chance(G.cfg.spurious_permille, 1000))
    pick = 1 + (int) G.rng.below(all.size());
  int v = decide('W', (int) all.size() + 1, 0, pick);
  if (v > 0)
    {
      std::pair<void *, int> p = all[v - 1];
      int tid = G.cond_waiters[p.first][p.second];
      wake_waiter(p.first, p.second);
      --G.spurious_left;
      ++G.st.spurious_fired;
      ev("spurious-wake", tid, obj_id(p.first));
    }
}

int policy_pick(const std::vector<int> &en, int cur_idx)
{
  int n = (int) en.size();
  // starvation ("slow node"): exclude the victim while the window lasts
  std::vector<int> cand;
  long dno = (long) G.decisions.size();
  int victim = -1;
  if (G.cfg.starve_victim >= 0 && dno >= G.cfg.starve_from && dno < G.cfg.starve_from + G.cfg.starve_len)
    victim = G.cfg.starve_victim % (int) G.threads.size();
  for (int i = 0; i < n; ++i)
    if (en[i] != victim && G.threads[en[i]]->delayed_until <= dno) cand.push_back(i);
  if (cand.empty()) for (int i = 0; i < n; ++i) cand.push_back(i);
  else if ((int) cand.size() < n) ++G.st.starve_skips;
  int m = (int) cand.size();
  bool cur_ok = false;
  for (int i = 0; i < m; ++i) if (cand[i] == cur_idx) cur_ok = true;
  switch (G.cfg.policy)
    {
    case POL_STICKY:
      if (cur_ok && G.rng.chance(G.cfg.sticky_permille, 1000)) return cur_idx;
      return cand[G.rng.below(m)];
    case POL_PCT:
      {
	for (size_t k = 0; k < G.pct_points.size(); ++k)
	  if (G.pct_points[k] == G.st.steps && tl_self)
	    tl_self->prio = --G.pct_low;
	int best = cand[0];
	for (int i = 1; i < m; ++i)
	  if (G.threads[en[cand[i]]]->prio > G.threads[en[best]]->prio) best = cand[i];
	return best;
      }
    case POL_ROTATE:
      {
	if (cur_ok && G.rot_left > 0) { --G.rot_left; return cur_idx; }
	G.rot_left = G.cfg.quantum > 0 ? (int) G.rng.below(G.cfg.quantum + 1) : 0;
	// next enabled id after the current one
	int curid = tl_self ? tl_self->id : -1;
	for (int i = 0; i < m; ++i) if (en[cand[i]] > curid) return cand[i];
	return cand[0];
      }
    default:
      return cand[G.rng.below(m)];
    }
}

// The scheduling point.  The caller has already put itself in the state it
// will be in while others run (ST_RUN, or blocked on something).
void reschedule(bool exiting = false, SimThread *exiting_self = 0)
{
  SimThread *self = exiting_self ? exiting_self : tl_self;
  ++G.st.steps;
  if (G.st.steps > G.cfg.max_steps)
    fatal("no-progress", "more than max_steps scheduler decisions\n" + sim_dump_threads());
  SimThread *next;
  {
    // everything allocated for the decision is released *before* the token is handed over: a thread that has
    // passed the token on must not touch the heap any more (its frees would interleave with the next thread's
    // allocations in real time and make heap layouts irreproducible)
    maybe_spurious();
    std::vector<int> en;
    int cur_idx = -1;
    for (size_t i = 0; i < G.threads.size(); ++i)
      if (enabled(G.threads[i]))
        {
  	if (G.threads[i] == self && !exiting) cur_idx = (int) en.size();
  	en.push_back((int) i);
        }
    if (en.empty())
      fatal("deadlock", "no enabled thread\n" + sim_dump_threads());
    if ((long) en.size() > G.st.max_enabled) G.st.max_enabled = (long) en.size();
    int chosen = 0;
    if (en.size() > 1)
      {
        int dflt = cur_idx >= 0 ? cur_idx : 0;
        int pick = G.cfg.use_replay ? dflt : policy_pick(en, cur_idx);
        chosen = decide('T', (int) en.size(), dflt, pick);
      }
    next = G.threads[en[chosen]];
  }
  if (next == self) return;
  ++G.st.switches;
  unpark(next);
  if (!exiting) park(self);
}

void reschedule_exit(SimThread *t) { reschedule(true, t); }

SimThread *find_by_real(pthread_t t)
{
  for (size_t i = 0; i < G.threads.size(); ++i)
    if (i > 0 && G.threads[i]->real && pthread_equal(G.threads[i]->real, t)) return G.threads[i];
  return 0;
}

void reschedule_exit(SimThread *t);
void *pool_main(void *p);
void *trampoline(void *p)
{
  SimThread *t = (SimThread *) p;
  {
    Ign ign_;
    tl_self = t;
    park(t);
    ev("thread-start");
  }
  t->ret = t->fn(t->arg);
  {
    Ign ign_;
    ev("thread-exit");
    t->st = ST_DONE;
    reschedule(true);
  }
  return t->ret;
}

void *pool_main(void *p)
{
  RealWorker *w = (RealWorker *) p;
  for (;;)
    {
      while (__atomic_load_n(&w->futex, __ATOMIC_SEQ_CST) == 0)
	futex_call(&w->futex, FUTEX_WAIT_PRIVATE, 0);
      __atomic_store_n(&w->futex, 0, __ATOMIC_SEQ_CST);
      SimThread *t = w->job;
      tl_self = t;
      park(t);
      ev("thread-start");
      t->ret = t->fn(t->arg);
      ev("thread-exit");
      t->st = ST_DONE;
      reschedule_exit(t);
      tl_self = 0;
    }
  return 0;
}

void on_alarm(int)
{
  static const char m[] = "SIM-T STALL: token holder made no progress within the watchdog time (unintercepted blocking?)\n";
  ssize_t r = write(2, m, sizeof(m) - 1); (void) r;
  _exit(2);
}

} // namespace

void sim_sched_begin(const SimConfig &cfg, sim_fatal_cb cb)
{
  Ign ign_;
  for (size_t i = 0; i < G.threads.size(); ++i)
    {
      // a finished but never joined simulated thread gives its real thread back now
      if (G.threads[i]->host && G.threads[i]->st == ST_DONE) g_idle.push_back(G.threads[i]->host);
      delete G.threads[i];
    }
  G.threads.clear(); G.mutex_owner.clear(); G.cond_waiters.clear(); G.objid.clear();
  G.log.clear(); G.decisions.clear(); g_hist_store.clear();
  memset(&G.st, 0, sizeof(G.st));
  G.cfg = cfg; G.rng.reseed(cfg.seed ^ 0x5d5d5d5d12345ULL); G.fatal_cb = cb;
  G.spurious_left = cfg.spurious_budget; G.dying = false;
  G.pct_points.clear(); G.pct_low = 0; G.rot_left = 0;
  G.preempt_rng.reseed(cfg.seed ^ 0x7072656d7074ULL);
  G.preempt_left = cfg.preempt_budget;
  G.next_preempt_at = 1 + (long) (G.preempt_rng.next() & ((1UL << G.preempt_rng.below(cfg.preempt_gap_log2 + 1)) - 1 | 1));
  if (cfg.policy == POL_PCT && !cfg.use_replay)
    for (int i = 0; i < cfg.pct_depth; ++i)
      G.pct_points.push_back(1 + (long) G.rng.below(cfg.pct_len > 0 ? cfg.pct_len : 1));
  SimThread *m = new SimThread();
  m->id = 0; m->real = pthread_self(); m->futex = 0; m->st = ST_RUN; m->waiting_on = 0; m->cond_mutex = 0;
  m->join_target = -1; m->fn = 0; m->arg = 0; m->ret = 0; m->prio = 1000000; m->host = 0; m->delayed_until = 0;
  G.threads.push_back(m);
  tl_self = m;
  if (cfg.stall_seconds > 0) { signal(SIGALRM, on_alarm); alarm(cfg.stall_seconds); }
  G.active = true;
}

static void compute_hashes()
{
  uint64_t h = FNV_INIT, hs = FNV_INIT;
  for (size_t i = 0; i < G.log.size(); ++i)
    {
      const Event &e = G.log[i];
      h = fnv1a(h, &e.step, sizeof(e.step)); h = fnv1a(h, &e.tid, sizeof(e.tid));
      h = fnv1a(h, e.op, strlen(e.op)); h = fnv1a(h, &e.a, sizeof(e.a)); h = fnv1a(h, &e.b, sizeof(e.b));
      hs = fnv1a(hs, &e.tid, sizeof(e.tid)); hs = fnv1a(hs, e.op, strlen(e.op));
    }
  G.st.log_hash = h; G.st.sched_hash = hs;
}

uint64_t sim_log_hash_now() { Ign ign_; compute_hashes(); return G.st.log_hash; }

void sim_sched_end(SimStats *out)
{
  Ign ign_;
  G.active = false;
  alarm(0);
  compute_hashes();
  G.st.threads_created = (long) G.threads.size() - 1;
  if (out) *out = G.st;
}

bool sim_sched_active() { return G.active; }

void sim_hist(int kind, int a, const char *tag)
{
  Ign ign_;
  SimHist h; h.kind = kind; h.a = a; h.tid = sim_self();
  g_hist_store.push_back(h);
  sim_event(tag, a, -1);
}
const std::vector<SimHist> &sim_hist_get() { return g_hist_store; }

// ThreadSanitizer calls this for every report.  It lives here (uninstrumented)
// and uses only a raw write so that it cannot recurse into the runtime.
static long g_tsan_reports;
static unsigned long long g_tsan_tag;
long sim_tsan_reports() { return g_tsan_reports; }
unsigned long long sim_tsan_tag(unsigned long long v) { g_tsan_tag = v; return v; }
extern "C" void __tsan_on_report(void *) __attribute__((used, visibility("default")));
extern "C" void __tsan_on_report(void *)
{
  ++g_tsan_reports;
  char buf[64]; int n = 0; unsigned long long v = g_tsan_tag; char d[24]; int k = 0;
  const char *p = "TSAN-REPORT-IN-RUN seed=";
  while (*p) buf[n++] = *p++;
  do { d[k++] = (char) ('0' + v % 10); v /= 10; } while (v);
  while (k) buf[n++] = d[--k];
  buf[n++] = '\n';
  syscall(SYS_write, 2, buf, n);
}
int sim_self() { return G.active && tl_self ? tl_self->id : -1; }
const std::vector<SimDecision> &sim_decisions() { return G.decisions; }

void sim_yield(const char *tag)
{
  Ign ign_;
  if (!G.active) return;
  ev(tag);
  reschedule();
}

void sim_event(const char *tag, long a, long b)
{
  Ign ign_;
  if (!G.active) return;
  ev(tag, a, b);
}

std::string sim_dump_log(size_t max_lines)
{
  std::string s;
  size_t from = G.log.size() > max_lines ? G.log.size() - max_lines : 0;
  char buf[256];
  for (size_t i = from; i < G.log.size(); ++i)
    {
      const Event &e = G.log[i];
      snprintf(buf, sizeof buf, "%ld t%d %s %ld %ld\n", e.step, e.tid, e.op, e.a, e.b);
      s += buf;
    }
  return s;
}

std::string sim_dump_threads()
{
  std::string s;
  char buf[256];
  static const char *names[] = { "runnable", "blocked-on-mutex", "waiting-on-cond", "joining", "finished" };
  for (size_t i = 0; i < G.threads.size(); ++i)
    {
      SimThread *t = G.threads[i];
      long obj = -1;
      if (t->st == ST_BLK_MUTEX || t->st == ST_BLK_COND) obj = obj_id(t->waiting_on);
      if (t->st == ST_BLK_JOIN) obj = t->join_target;
      long owner = -2;
      if (t->st == ST_BLK_MUTEX)
	{
	  std::map<void *, int>::iterator o = G.mutex_owner.find(t->waiting_on);
	  owner = o == G.mutex_owner.end() ? -1 : o->second;
	}
      snprintf(buf, sizeof buf, "  t%d %s obj=%ld%s", t->id, names[t->st], obj, "");
      s += buf;
      if (owner != -2) { snprintf(buf, sizeof buf, " owner=t%ld", owner); s += buf; }
      s += "\n";
    }
  return s;
}

// ---------------------------------------------------------------------------
// the wrapped primitives

extern "C" {

int __wrap_pthread_create(pthread_t *tid, const pthread_attr_t *attr, void *(*fn)(void *), void *arg)
{
  if (!G.active) return __real_pthread_create(tid, attr, fn, arg);
  Ign ign_;
  ev("create-req");
  reschedule();
  SimThread *t = new SimThread();
  t->id = (int) G.threads.size(); t->futex = 0; t->st = ST_RUN; t->waiting_on = 0; t->cond_mutex = 0;
  t->join_target = -1; t->fn = fn; t->arg = arg; t->ret = 0;
  t->prio = G.cfg.policy == POL_PCT && !G.cfg.use_replay ? (long) G.rng.below(1000) + 1 : 0;
  t->delayed_until = 0;
  G.threads.push_back(t);
  int r = 0;
  t->host = 0;
  if (use_pool())
    {
      RealWorker *w;
      if (!g_idle.empty()) { w = g_idle.back(); g_idle.pop_back(); }
      else
	{
	  w = new RealWorker(); w->futex = 0; w->job = 0;
	  r = __real_pthread_create(&w->real, 0, pool_main, w);
	  if (r == 0) g_all_workers.push_back(w); else { delete w; w = 0; }
	}
      if (w)
	{
	  t->host = w; t->real = w->real; w->job = t;
	  __atomic_store_n(&w->futex, 1, __ATOMIC_SEQ_CST);
	  futex_call(&w->futex, FUTEX_WAKE_PRIVATE, 1);
	}
    }
  else
    r = __real_pthread_create(&t->real, attr, trampoline, t);
  if (r != 0) { G.threads.pop_back(); delete t; return r; }
  *tid = t->real;
  ev("create", t->id);
  return 0;
}

int __wrap_pthread_join(pthread_t th, void **ret)
{
  if (!G.active) return __real_pthread_join(th, ret);
  Ign ign_;
  SimThread *t = find_by_real(th);
  if (!t) return __real_pthread_join(th, ret);
  ++G.st.join_ops;
  ev("join-req", t->id);
  tl_self->st = ST_BLK_JOIN; tl_self->join_target = t->id;
  reschedule();
  tl_self->st = ST_RUN;
  ev("joined", t->id);
  if (t->host)
    {
      if (ret) *ret = t->ret;
      g_idle.push_back(t->host);
      t->host = 0;
      t->real = 0;
      return 0;
    }
  // pthread_t values are reused by glibc once a thread has been joined: forget this one
  t->real = 0;
  return __real_pthread_join(th, ret);
}

int __wrap_pthread_mutex_lock(pthread_mutex_t *m)
{
  if (!G.active || G.dying) return __real_pthread_mutex_lock(m);
  Ign ign_;
  ++G.st.lock_ops;
  int mid = obj_id(m);
  ev("lock-req", mid);
  std::map<void *, int>::iterator o = G.mutex_owner.find(m);
  if (o != G.mutex_owner.end() && o->second >= 0) ++G.st.lock_contended;
  tl_self->st = ST_BLK_MUTEX; tl_self->waiting_on = m;
  if (G.cfg.first_use_delay > 0 && !G.cfg.use_replay && G.mutex_requested.insert(m).second)
    {
      tl_self->delayed_until = (long) G.decisions.size() + G.cfg.first_use_delay;
      ++G.st.first_use_delays;
    }
  reschedule();
  tl_self->delayed_until = 0;
  G.mutex_owner[m] = tl_self->id;
  tl_self->st = ST_RUN;
  ev("lock-acq", mid);
  return __real_pthread_mutex_lock(m);
}

int __wrap_pthread_mutex_trylock(pthread_mutex_t *m)
{
  if (!G.active || G.dying) return __real_pthread_mutex_trylock(m);
  Ign ign_;
  int mid = obj_id(m);
  ev("trylock", mid);
  reschedule();
  std::map<void *, int>::iterator o = G.mutex_owner.find(m);
  if (o != G.mutex_owner.end() && o->second >= 0) return EBUSY;
  G.mutex_owner[m] = tl_self->id;
  return __real_pthread_mutex_trylock(m);
}

int __wrap_pthread_mutex_unlock(pthread_mutex_t *m)
{
  if (!G.active || G.dying) return __real_pthread_mutex_unlock(m);
  Ign ign_;
  ++G.st.unlock_ops;
  int mid = obj_id(m);
  ev("unlock-req", mid);
  reschedule();
  int r = __real_pthread_mutex_unlock(m);
  G.mutex_owner[m] = -1;
  ev("unlock", mid);
  // A second scheduling point *after* the release: the window between an unlock and the next
  // statement of the same thread (e.g. a flag that is set just after the critical section instead
  // of inside it) is otherwise unreachable, because the thread would run on to its next pthread call.
  reschedule();
  return r;
}

int __wrap_pthread_cond_wait(pthread_cond_t *c, pthread_mutex_t *m)
{
  if (!G.active || G.dying) return __real_pthread_cond_wait(c, m);
  Ign ign_;
  ++G.st.wait_ops;
  int cid = obj_id(c), mid = obj_id(m);
  ev("wait-req", cid, mid);
  reschedule();
  // atomically: release the mutex and enter the wait set
  __real_pthread_mutex_unlock(m);
  G.mutex_owner[m] = -1;
  tl_self->st = ST_BLK_COND; tl_self->waiting_on = c; tl_self->cond_mutex = m;
  G.cond_waiters[c].push_back(tl_self->id);
  ev("wait-enter", cid, mid);
  reschedule();
  // woken (signal, broadcast or spurious) and the mutex is free
  G.mutex_owner[m] = tl_self->id;
  tl_self->st = ST_RUN;
  ev("wait-return", cid, mid);
  return __real_pthread_mutex_lock(m);
}

int __wrap_pthread_cond_timedwait(pthread_cond_t *c, pthread_mutex_t *m, const struct timespec *)
{
  // no clock in the simulation: a timed wait never times out
  return __wrap_pthread_cond_wait(c, m);
}

int __wrap_pthread_cond_signal(pthread_cond_t *c)
{
  if (!G.active || G.dying) return __real_pthread_cond_signal(c);
  Ign ign_;
  ++G.st.signal_ops;
  int cid = obj_id(c);
  ev("signal-req", cid);
  reschedule();
  std::vector<int> &w = G.cond_waiters[c];
  if (w.empty())
    {
      ++G.st.signals_lost_empty;
      ev("signal-nobody", cid);
      return 0;
    }
  int idx = 0;
  if (w.size() > 1)
    {
      ++G.st.signal_choices;
      int pick = G.cfg.use_replay ? 0 : (int) G.rng.below(w.size());
      idx = decide('S', (int) w.size(), 0, pick);
    }
  int tid = w[idx];
  wake_waiter(c, idx);
  ev("signal", cid, tid);
  return 0;
}

int __wrap_pthread_cond_broadcast(pthread_cond_t *c)
{
  if (!G.active || G.dying) return __real_pthread_cond_broadcast(c);
  Ign ign_;
  ++G.st.broadcast_ops;
  int cid = obj_id(c);
  ev("broadcast-req", cid);
  reschedule();
  std::vector<int> &w = G.cond_waiters[c];
  long n = (long) w.size();
  while (!w.empty()) wake_waiter(c, 0);
  ev("broadcast", cid, n);
  return 0;
}

// operator new(size_t) called by the program (not by the simulator itself): an optional scheduling point *inside*
// task bodies.  Positions are a pure function of the run seed (their own PRNG stream, so a replayed decision
// list meets the same preemption points).
void *__real__Znwm(size_t);
void *__wrap__Znwm(size_t n)
{
  if (G.active && !G.dying && !tl_in_runtime && tl_self && G.preempt_left > 0)
    {
      Ign ign_;
      if (++G.st.allocations_seen >= G.next_preempt_at)
	{
	  --G.preempt_left;
	  ++G.st.preemptions;
	  G.next_preempt_at = G.st.allocations_seen + 1 + (long) (G.preempt_rng.next() & ((1UL << G.preempt_rng.below(G.cfg.preempt_gap_log2 + 1)) - 1));
	  ev("preempt-at-new", G.st.allocations_seen);
	  reschedule();
	}
    }
  return __real__Znwm(n);
}

long __wrap_sysconf(int name)
{
  if (G.active && name == _SC_NPROCESSORS_ONLN) return G.cfg.nprocs;
  return __real_sysconf(name);
}

} // extern "C"
