// C32: the real abigail::workers::queue under SIM-T, thousands of simulated
// runs in one process.  One run = workload (workers, tasks, how they are
// scheduled, how shutdown happens) x schedule x faults (spurious wake-ups,
// arbitrary signal recipient, starvation).  The recorded history is checked
// against a trivial reference model (a multiset of accepted tasks).
#include "simsched.h"
#include "prng.h"
#include "abg-workers.h"
#include <stdio.h>
#include <stdlib.h>
#include <string.h>
#include <unistd.h>
#include <set>
#include <map>
#include <string>
#include <sstream>

using namespace abigail::workers;
using std::string;

extern "C" const char *__asan_default_options() __attribute__((used, visibility("default")));
extern "C" const char *__asan_default_options() { return "exitcode=77:detect_leaks=0:abort_on_error=0:handle_abort=1"; }
extern "C" const char *__tsan_default_options() __attribute__((used, visibility("default")));
extern "C" const char *__tsan_default_options() { return "exitcode=0:halt_on_error=0:report_signal_unsafe=0:second_deadlock_stack=1"; }

// ---------------------------------------------------------------------------
// workload description (a pure function of the run seed, then overridable)

struct TaskSpec { bool nil; int yields; bool batch_with_next; };

struct RunCfg
{
  uint64_t seed;
  int ctor;            // 0: queue()  1: queue(n)  2: queue(n, notifier)
  int workers;
  int ntasks;
  std::vector<TaskSpec> tasks;
  int notifier_yields;
  bool explicit_wait;
  bool double_wait;
  bool post_wait_schedule;
  bool main_yields;    // main thread yields between schedule calls
  SimConfig sim;
};

static void derive_cfg(uint64_t seed, RunCfg &c)
{
  Prng r(seed ^ 0xabcdef0123ULL);
  c.seed = seed;
  unsigned k = r.below(100);
  c.workers = k < 3 ? 0 : k < 63 ? (int) r.range(1, 4) : (int) r.range(5, 16);
  k = r.below(100);
  c.ntasks = k < 3 ? 0 : k < 63 ? (int) r.range(1, 8) : (int) r.range(9, 40);
  k = r.below(100);
  c.ctor = k < 15 ? 0 : k < 35 ? 1 : 2;
  c.tasks.clear();
  bool use_batches = r.chance(1, 2), use_nil = r.chance(1, 4);
  for (int i = 0; i < 40; ++i)
    {
      TaskSpec t;
      t.nil = use_nil && r.chance(1, 10);
      t.yields = r.chance(1, 2) ? 0 : (int) r.range(1, 3);
      t.batch_with_next = use_batches && r.chance(1, 2);
      c.tasks.push_back(t);
    }
  c.notifier_yields = (int) r.range(0, 2);
  c.explicit_wait = r.chance(7, 10);
  c.double_wait = r.chance(1, 10);
  c.post_wait_schedule = r.chance(1, 5);
  c.main_yields = r.chance(1, 3);
  SimConfig &s = c.sim;
  s.seed = seed;
  s.policy = (int) r.below(POL_NPOL);
  s.pct_depth = (int) r.range(1, 3);
  s.pct_len = 20 + 12 * (c.ntasks + c.workers);
  s.sticky_permille = (int) r.range(500, 950);
  s.quantum = (int) r.range(0, 6);
  bool spur = r.chance(6, 10);
  s.spurious_budget = spur ? (int) r.range(1, 5) : 0;
  s.spurious_permille = spur ? (int) r.range(5, 80) : 0;
  bool starve = r.chance(3, 10);
  s.starve_victim = starve ? (int) r.below(17) : -1;
  s.starve_from = starve ? (long) r.below(100) : 0;
  s.starve_len = starve ? (long) r.range(10, 200) : 0;
  s.nprocs = (int) r.range(1, 16);
  s.stall_seconds = 120;
  s.use_replay = false;
  // drawn last, so that the configurations of earlier versions of this file are unchanged
  static const int fud[] = { 10, 30, 90 };
  s.first_use_delay = r.chance(1, 4) ? fud[r.below(3)] : 0;
}

// ---------------------------------------------------------------------------
// harness tasks, notifier and the recorded history

enum HK { H_SCHED_OK, H_SCHED_REJ, H_PERF_START, H_PERF_END, H_NOT_ENTER, H_NOT_EXIT, H_WAIT_RET };
static int g_in_notifier;           // plain int on purpose: TSan must see unsynchronised notifier calls
static int g_notifier_overlap;
static long g_notify_counter;       // plain, guarded (if at all) by the queue's done-mutex
static int g_notifier_yields;

static void hist(HK k, int task)
{
  sim_hist((int) k, task, k == H_SCHED_OK ? "h-sched-ok" : k == H_SCHED_REJ ? "h-sched-rej" : k == H_PERF_START ? "h-perf-start"
	   : k == H_PERF_END ? "h-perf-end" : k == H_NOT_ENTER ? "h-notify-enter" : k == H_NOT_EXIT ? "h-notify-exit"
	   : "h-wait-return");
}

struct sim_task : public task
{
  int id, yields;
  int performed;   // plain: written by the worker, read by main after the join
  int notified;
  sim_task(int i, int y) : id(i), yields(y), performed(0), notified(0) {}
  virtual void perform()
  {
    hist(H_PERF_START, id);
    for (int i = 0; i < yields; ++i) sim_yield("task-yield");
    ++performed;
    hist(H_PERF_END, id);
  }
};

struct sim_notifier : public queue::task_done_notify
{
  virtual void operator()(const task_sptr &t)
  {
    sim_task *st = dynamic_cast<sim_task *>(t.get());
    int id = st ? st->id : -1;
    if (g_in_notifier) ++g_notifier_overlap;
    ++g_in_notifier;
    hist(H_NOT_ENTER, id);
    ++g_notify_counter;
    for (int i = 0; i < g_notifier_yields; ++i) sim_yield("notifier-yield");
    if (st) ++st->notified;
    hist(H_NOT_EXIT, id);
    --g_in_notifier;
  }
};

// ---------------------------------------------------------------------------

static uint64_t g_cur_seed;
static bool g_emit_log;
static string g_cfg_json;

static string jesc(const string &s)
{
  string o;
  for (size_t i = 0; i < s.size(); ++i)
    {
      char c = s[i];
      if (c == '"' || c == '\\') { o += '\\'; o += c; }
      else if (c == '\n') o += "\\n";
      else if ((unsigned char) c < 0x20) o += ' ';
      else o += c;
    }
  return o;
}

static string decisions_json()
{
  const std::vector<SimDecision> &d = sim_decisions();
  std::ostringstream o;
  o << "[";
  for (size_t i = 0; i < d.size(); ++i)
    {
      if (i) o << ",";
      o << "[\"" << d[i].kind << "\"," << d[i].n << "," << d[i].chosen << "," << d[i].dflt << "]";
    }
  o << "]";
  return o.str();
}

static void report_violation(const char *klass, const string &details)
{
  printf("{\"result\":\"violation\",\"seed\":%llu,\"class\":\"%s\",\"log_hash\":\"%016llx\",\"details\":\"%s\",\"cfg\":%s,\"decisions\":%s,\"log\":\"%s\"}\n",
	 (unsigned long long) g_cur_seed, klass, (unsigned long long) sim_log_hash_now(), jesc(details).c_str(), g_cfg_json.c_str(), decisions_json().c_str(),
	 jesc(sim_dump_log(g_emit_log ? 100000 : 60)).c_str());
  fflush(stdout);
}

static void on_fatal(const char *klass, const string &details)
{
  report_violation(klass, details);
  _exit(1);
}

static string cfg_json(const RunCfg &c)
{
  std::ostringstream o;
  o << "{\"ctor\":" << c.ctor << ",\"workers\":" << c.workers << ",\"ntasks\":" << c.ntasks
    << ",\"notifier_yields\":" << c.notifier_yields << ",\"explicit_wait\":" << c.explicit_wait
    << ",\"double_wait\":" << c.double_wait << ",\"post_wait_schedule\":" << c.post_wait_schedule
    << ",\"main_yields\":" << c.main_yields << ",\"policy\":" << c.sim.policy
    << ",\"spurious_budget\":" << c.sim.spurious_budget << ",\"spurious_permille\":" << c.sim.spurious_permille
    << ",\"starve_victim\":" << c.sim.starve_victim << ",\"starve_from\":" << c.sim.starve_from
    << ",\"starve_len\":" << c.sim.starve_len << ",\"nprocs\":" << c.sim.nprocs << ",\"max_steps\":" << c.sim.max_steps
    << ",\"use_replay\":" << c.sim.use_replay << ",\"tasks\":[";
  for (int i = 0; i < c.ntasks; ++i)
    o << (i ? "," : "") << "[" << c.tasks[i].nil << "," << c.tasks[i].yields << "," << c.tasks[i].batch_with_next << "]";
  o << "]}";
  return o.str();
}

struct Totals
{
  long runs, steps, switches, threads, lock_ops, wait_ops, signal_ops, broadcast_ops;
  long signals_lost_empty, signal_choices, spurious_fired, starve_skips, lock_contended;
  long runs_with_spurious, runs_with_starvation, runs_fault_free;
  long tasks_accepted, tasks_rejected, probe_wait_on_done_cond, probe_worker_saw_down_with_todo;
  long probe_post_wait_rejected, probe_zero_workers, probe_destructor_drain, probe_max_enabled;
  long max_steps_seen;
  std::set<uint64_t> sched_hashes, log_hashes;
  uint64_t all_hash;
};
static Totals T;

// returns 0 when the run satisfied the model; otherwise prints a violation and returns 1
static int run_one(RunCfg &c)
{
  g_cur_seed = c.seed; sim_tsan_tag(c.seed);
  g_cfg_json = cfg_json(c);
  g_in_notifier = 0; g_notifier_overlap = 0; g_notify_counter = 0;
  g_notifier_yields = c.notifier_yields;

  int effective_workers = c.ctor == 0 ? c.sim.nprocs : c.workers;
  c.sim.max_steps = 500 + 200L * (c.ntasks + effective_workers) + 20L * c.sim.spurious_budget;

  std::vector<task_sptr> tasks;
  std::vector<sim_task *> raw;
  for (int i = 0; i < c.ntasks; ++i)
    {
      if (c.tasks[i].nil) { tasks.push_back(task_sptr()); raw.push_back(0); }
      else
	{
	  sim_task *t = new sim_task(i, c.tasks[i].yields);
	  raw.push_back(t);
	  tasks.push_back(task_sptr(t));
	}
    }
  std::vector<char> accepted(c.ntasks, 0);
  sim_notifier notifier;
  task_sptr late(new sim_task(1000, 0));
  bool late_ret = true;
  std::vector<int> completed_ids;
  size_t size_after_wait = 0;
  bool have_completed = false;

  sim_sched_begin(c.sim, on_fatal);
  {
    queue *q = c.ctor == 0 ? new queue() : c.ctor == 1 ? new queue(c.workers) : new queue(c.workers, notifier);
    for (int i = 0; i < c.ntasks;)
      {
	int j = i;
	while (j < c.ntasks - 1 && c.tasks[j].batch_with_next) ++j;
	if (j == i)
	  {
	    bool ok = q->schedule_task(tasks[i]);
	    accepted[i] = ok;
	    hist(ok ? H_SCHED_OK : H_SCHED_REJ, i);
	  }
	else
	  {
	    queue::tasks_type batch(tasks.begin() + i, tasks.begin() + j + 1);
	    bool all_ok = q->schedule_tasks(batch);
	    // schedule_tasks reports only the conjunction; per-task acceptance
	    // follows the documented rule (nil or no workers => rejected)
	    bool expect_all = true;
	    for (int k = i; k <= j; ++k)
	      {
		bool ok = tasks[k] && effective_workers > 0;
		accepted[k] = ok;
		expect_all = expect_all && ok;
		hist(ok ? H_SCHED_OK : H_SCHED_REJ, k);
	      }
	    if (all_ok != expect_all)
	      {
		report_violation("schedule-return", "schedule_tasks returned " + string(all_ok ? "true" : "false")
				 + " but the batch " + (expect_all ? "was fully acceptable" : "contained a task that must be rejected"));
		_exit(1);
	      }
	  }
	i = j + 1;
	if (c.main_yields) sim_yield("main-yield");
      }
    if (c.explicit_wait)
      {
	q->wait_for_workers_to_complete();
	hist(H_WAIT_RET, -1);
	size_after_wait = q->get_size();
	queue::tasks_type &done = q->get_completed_tasks();
	for (size_t i = 0; i < done.size(); ++i)
	  {
	    sim_task *st = dynamic_cast<sim_task *>(done[i].get());
	    completed_ids.push_back(st ? st->id : -1);
	  }
	have_completed = true;
	if (c.double_wait) q->wait_for_workers_to_complete();
	if (c.post_wait_schedule)
	  {
	    late_ret = q->schedule_task(late);
	    if (!late_ret) ++T.probe_post_wait_rejected;
	  }
	delete q;
      }
    else
      {
	++T.probe_destructor_drain;
	delete q;
	hist(H_WAIT_RET, -1);
      }
  }
  SimStats st;
  sim_sched_end(&st);

  // ---- history check against the reference model --------------------------
  std::ostringstream bad;
  const char *klass = 0;
#define FAIL(k, msg) do { if (!klass) { klass = k; bad << msg; } } while (0)
  std::vector<int> perf_start(c.ntasks, 0), perf_end(c.ntasks, 0), not_enter(c.ntasks, 0), not_exit(c.ntasks, 0);
  bool waited = false;
  int open_notifier = 0;
  const std::vector<SimHist> &H = sim_hist_get();
  for (size_t i = 0; i < H.size(); ++i)
    {
      struct { HK k; int task; } e = { (HK) H[i].kind, H[i].a };
      if (e.k == H_WAIT_RET) { waited = true; continue; }
      if (e.k == H_SCHED_OK || e.k == H_SCHED_REJ) continue;
      if (e.task == 1000) { FAIL("rejected-task-performed", "task offered after shutdown was performed"); continue; }
      if (e.task < 0 || e.task >= c.ntasks) { FAIL("completed-mismatch", "event for unknown task " << e.task); continue; }
      if (waited) FAIL("activity-after-wait", "task " << e.task << " event kind " << e.k << " after wait_for_workers_to_complete returned");
      switch (e.k)
	{
	case H_PERF_START: ++perf_start[e.task]; break;
	case H_PERF_END: ++perf_end[e.task]; break;
	case H_NOT_ENTER:
	  if (open_notifier) FAIL("notify-overlap", "notifier entered for task " << e.task << " while another invocation was running");
	  ++open_notifier;
	  if (!perf_end[e.task]) FAIL("notify-before-perform", "notifier ran for task " << e.task << " before its perform() returned");
	  ++not_enter[e.task];
	  break;
	case H_NOT_EXIT: --open_notifier; ++not_exit[e.task]; break;
	default: break;
	}
    }
  if (g_notifier_overlap) FAIL("notify-overlap", "notifier re-entered " << g_notifier_overlap << " time(s)");
  long n_acc = 0, n_rej = 0;
  for (int i = 0; i < c.ntasks; ++i)
    {
      bool should = tasks[i] && effective_workers > 0;
      if ((bool) accepted[i] != should)
	FAIL("schedule-return", "schedule_task returned " << (accepted[i] ? "true" : "false") << " for task " << i
	     << " (nil=" << !tasks[i] << ", workers=" << effective_workers << ")");
      if (should)
	{
	  ++n_acc;
	  if (perf_start[i] == 0) FAIL("task-lost", "accepted task " << i << " was never performed");
	  else if (perf_start[i] > 1) FAIL("task-twice", "task " << i << " performed " << perf_start[i] << " times");
	  else if (perf_end[i] != 1) FAIL("task-lost", "task " << i << " perform() did not return");
	  if (raw[i] && raw[i]->performed != perf_end[i]) FAIL("task-twice", "task " << i << " performed counter " << raw[i]->performed);
	  if (c.ctor == 2)
	    {
	      if (not_enter[i] == 0) FAIL("notify-missing", "no completion notification for task " << i);
	      else if (not_enter[i] > 1) FAIL("notify-twice", "task " << i << " notified " << not_enter[i] << " times");
	      else if (not_exit[i] != 1) FAIL("notify-missing", "notifier for task " << i << " did not return before shutdown");
	    }
	}
      else
	{
	  ++n_rej;
	  if (perf_start[i]) FAIL("rejected-task-performed", "rejected task " << i << " was performed");
	}
    }
  if (c.ctor == 2 && g_notify_counter != n_acc) FAIL("notify-missing", "notifier ran " << g_notify_counter << " times for " << n_acc << " accepted tasks");
  if (have_completed)
    {
      std::map<int, int> cnt;
      for (size_t i = 0; i < completed_ids.size(); ++i) ++cnt[completed_ids[i]];
      for (int i = 0; i < c.ntasks; ++i)
	{
	  bool should = tasks[i] && effective_workers > 0;
	  int n = cnt.count(i) ? cnt[i] : 0;
	  if (should && n != 1) FAIL("completed-mismatch", "task " << i << " appears " << n << " times among the completed tasks");
	  if (!should && n != 0) FAIL("completed-mismatch", "rejected task " << i << " appears among the completed tasks");
	}
      if ((long) completed_ids.size() != n_acc) FAIL("completed-mismatch", completed_ids.size() << " completed tasks for " << n_acc << " accepted");
      if (size_after_wait != 0) FAIL("queue-not-drained", "get_size() == " << size_after_wait << " after wait_for_workers_to_complete");
    }
  if (c.post_wait_schedule && c.explicit_wait && late_ret)
    FAIL("schedule-return", "schedule_task after shutdown returned true (the task can never be performed)");
  if ((long) st.threads_created != effective_workers) FAIL("worker-count", st.threads_created << " threads created for " << effective_workers << " workers");
  if (klass)
    {
      report_violation(klass, bad.str());
      return 1;
    }

  // ---- totals -------------------------------------------------------------
  ++T.runs; T.steps += st.steps; T.switches += st.switches; T.threads += st.threads_created;
  T.lock_ops += st.lock_ops; T.wait_ops += st.wait_ops; T.signal_ops += st.signal_ops; T.broadcast_ops += st.broadcast_ops;
  T.signals_lost_empty += st.signals_lost_empty; T.signal_choices += st.signal_choices;
  T.spurious_fired += st.spurious_fired; T.starve_skips += st.starve_skips; T.lock_contended += st.lock_contended;
  if (st.spurious_fired) ++T.runs_with_spurious;
  if (st.starve_skips) ++T.runs_with_starvation;
  if (!st.spurious_fired && !st.starve_skips) ++T.runs_fault_free;
  T.tasks_accepted += n_acc; T.tasks_rejected += n_rej;
  if (effective_workers == 0) ++T.probe_zero_workers;
  if (st.max_enabled > T.probe_max_enabled) T.probe_max_enabled = st.max_enabled;
  if (st.steps > T.max_steps_seen) T.max_steps_seen = st.steps;
  T.sched_hashes.insert(st.sched_hash); T.log_hashes.insert(st.log_hash);
  T.all_hash = fnv1a(T.all_hash, &st.log_hash, sizeof st.log_hash);
  if (g_emit_log)
    {
      printf("{\"result\":\"ok\",\"seed\":%llu,\"log_hash\":\"%016llx\",\"sched_hash\":\"%016llx\",\"steps\":%ld,\"cfg\":%s,\"decisions\":%s}\n",
	     (unsigned long long) c.seed, (unsigned long long) st.log_hash, (unsigned long long) st.sched_hash, st.steps,
	     g_cfg_json.c_str(), decisions_json().c_str());
    }
  return 0;
}


static void apply_overrides(RunCfg &c, const char *ov)
{
  // comma separated key=value
  string s(ov);
  size_t p = 0;
  while (p < s.size())
    {
      size_t e = s.find(',', p); if (e == string::npos) e = s.size();
      string kv = s.substr(p, e - p); p = e + 1;
      size_t eq = kv.find('='); if (eq == string::npos) continue;
      string k = kv.substr(0, eq); long v = atol(kv.c_str() + eq + 1);
      if (k == "workers") c.workers = (int) v;
      else if (k == "ntasks") { c.ntasks = (int) v; if (c.ntasks > 40) c.ntasks = 40; }
      else if (k == "ctor") c.ctor = (int) v;
      else if (k == "nprocs") c.sim.nprocs = (int) v;
      else if (k == "notifier_yields") c.notifier_yields = (int) v;
      else if (k == "explicit_wait") c.explicit_wait = v;
      else if (k == "double_wait") c.double_wait = v;
      else if (k == "post_wait_schedule") c.post_wait_schedule = v;
      else if (k == "main_yields") c.main_yields = v;
      else if (k == "spurious_budget") c.sim.spurious_budget = (int) v;
      else if (k == "task_yields") for (size_t i = 0; i < c.tasks.size(); ++i) c.tasks[i].yields = (int) v;
      else if (k == "no_nil") { if (v) for (size_t i = 0; i < c.tasks.size(); ++i) c.tasks[i].nil = false; }
      else if (k == "no_batch") { if (v) for (size_t i = 0; i < c.tasks.size(); ++i) c.tasks[i].batch_with_next = false; }
    }
}

int main(int argc, char **argv)
{
  uint64_t base = 1; long from = 0, count = 1000; bool one = false; uint64_t one_seed = 0;
  const char *ov = 0; const char *dec = 0; const char *hash_out = 0;
  for (int i = 1; i < argc; ++i)
    {
      string a = argv[i];
      if (a == "--seed-base" && i + 1 < argc) base = strtoull(argv[++i], 0, 10);
      else if (a == "--from" && i + 1 < argc) from = atol(argv[++i]);
      else if (a == "--count" && i + 1 < argc) count = atol(argv[++i]);
      else if (a == "--one" && i + 1 < argc) { one = true; one_seed = strtoull(argv[++i], 0, 10); }
      else if (a == "--override" && i + 1 < argc) ov = argv[++i];
      else if (a == "--decisions" && i + 1 < argc) dec = argv[++i];
      else if (a == "--emit-log") g_emit_log = true;
      else if (a == "--hash-out" && i + 1 < argc) hash_out = argv[++i];
      else { fprintf(stderr, "usage: queue_sim [--seed-base S --from i --count n | --one RUNSEED [--override k=v,..] [--decisions a,b,..]] [--emit-log]\n"); return 2; }
    }
  T.all_hash = FNV_INIT;
  int rc = 0;
  if (one)
    {
      RunCfg c; derive_cfg(one_seed, c);
      if (ov) apply_overrides(c, ov);
      if (dec)
	{
	  c.sim.use_replay = true;
	  const char *p = dec;
	  while (*p) { c.sim.replay.push_back((int) strtol(p, (char **) &p, 10)); if (*p == ',') ++p; else if (*p) break; }
	}
      g_emit_log = true;
      rc = run_one(c);
    }
  else
    for (long i = from; i < from + count && rc == 0; ++i)
      {
	RunCfg c; derive_cfg(mix_seed(base, 32, 0, (uint64_t) i), c);
	rc = run_one(c);
	if (rc == 0 && sim_tsan_reports())
	  {
	    report_violation("data-race", "ThreadSanitizer reported a data race during this run (see stderr)");
	    rc = 1;
	  }
      }
  if (one && rc == 0 && sim_tsan_reports())
    { report_violation("data-race", "ThreadSanitizer reported a data race during this run (see stderr)"); rc = 1; }
  printf("{\"result\":\"summary\",\"runs\":%ld,\"steps\":%ld,\"switches\":%ld,\"threads\":%ld,\"lock_ops\":%ld,\"wait_ops\":%ld,"
	 "\"signal_ops\":%ld,\"broadcast_ops\":%ld,\"signals_lost_empty\":%ld,\"signal_choices\":%ld,\"spurious_fired\":%ld,"
	 "\"starve_skips\":%ld,\"lock_contended\":%ld,\"runs_with_spurious\":%ld,\"runs_with_starvation\":%ld,\"runs_fault_free\":%ld,"
	 "\"tasks_accepted\":%ld,\"tasks_rejected\":%ld,\"probe_post_wait_rejected\":%ld,\"probe_zero_workers\":%ld,"
	 "\"probe_destructor_drain\":%ld,\"probe_max_enabled\":%ld,\"max_steps_seen\":%ld,\"distinct_sched\":%zu,\"distinct_logs\":%zu,"
	 "\"all_hash\":\"%016llx\",\"tsan_reports\":%ld}\n",
	 T.runs, T.steps, T.switches, T.threads, T.lock_ops, T.wait_ops, T.signal_ops, T.broadcast_ops, T.signals_lost_empty,
	 T.signal_choices, T.spurious_fired, T.starve_skips, T.lock_contended, T.runs_with_spurious, T.runs_with_starvation,
	 T.runs_fault_free, T.tasks_accepted, T.tasks_rejected, T.probe_post_wait_rejected, T.probe_zero_workers,
	 T.probe_destructor_drain, T.probe_max_enabled, T.max_steps_seen, T.sched_hashes.size(), T.log_hashes.size(),
	 (unsigned long long) T.all_hash, sim_tsan_reports());
  fflush(stdout);
  if (hash_out)
    {
      FILE *f = fopen(hash_out, "wb");
      if (f)
	{
	  for (std::set<uint64_t>::iterator i = T.sched_hashes.begin(); i != T.sched_hashes.end(); ++i) fwrite(&*i, 8, 1, f);
	  fclose(f);
	}
    }
  return rc;
}
