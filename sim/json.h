// Minimal JSON reader/writer helpers for run specifications (one JSON object
// per line on the worker server's stdin).  Not a general parser: no \u escapes
// beyond pass-through, numbers are parsed as long long or double.
#ifndef SIM_JSON_H
#define SIM_JSON_H
#include <string>
#include <vector>
#include <map>
#include <stdlib.h>
#include <string.h>
#include <stdio.h>

struct JVal
{
  enum T { NUL, BOOL, NUM, STR, ARR, OBJ } t;
  bool b; long long n; double d; std::string s;
  std::vector<JVal> a;
  std::vector<std::pair<std::string, JVal> > o;
  JVal() : t(NUL), b(false), n(0), d(0) {}
  const JVal *get(const char *k) const
  {
    for (size_t i = 0; i < o.size(); ++i) if (o[i].first == k) return &o[i].second;
    return 0;
  }
  long long num(const char *k, long long dflt) const
  { const JVal *v = get(k); return v && v->t == NUM ? v->n : v && v->t == BOOL ? (long long) v->b : dflt; }
  std::string str(const char *k, const char *dflt = "") const
  { const JVal *v = get(k); return v && v->t == STR ? v->s : std::string(dflt); }
  bool has(const char *k) const { const JVal *v = get(k); return v && v->t != NUL; }
};

struct JParser
{
  const char *p; bool ok;
  explicit JParser(const char *s) : p(s), ok(true) {}
  void ws() { while (*p == ' ' || *p == '\t' || *p == '\n' || *p == '\r') ++p; }
  JVal parse()
  {
    JVal v; ws();
    if (*p == '{')
      {
	v.t = JVal::OBJ; ++p; ws();
	if (*p == '}') { ++p; return v; }
	while (ok)
	  {
	    ws(); JVal k = parse(); if (k.t != JVal::STR) { ok = false; break; }
	    ws(); if (*p != ':') { ok = false; break; } ++p;
	    JVal x = parse(); v.o.push_back(std::make_pair(k.s, x));
	    ws(); if (*p == ',') { ++p; continue; }
	    if (*p == '}') { ++p; break; }
	    ok = false;
	  }
      }
    else if (*p == '[')
      {
	v.t = JVal::ARR; ++p; ws();
	if (*p == ']') { ++p; return v; }
	while (ok)
	  {
	    v.a.push_back(parse());
	    ws(); if (*p == ',') { ++p; continue; }
	    if (*p == ']') { ++p; break; }
	    ok = false;
	  }
      }
    else if (*p == '"')
      {
	v.t = JVal::STR; ++p;
	while (*p && *p != '"')
	  {
	    if (*p == '\\')
	      {
		++p;
		switch (*p)
		  {
		  case 'n': v.s += '\n'; break; case 't': v.s += '\t'; break; case 'r': v.s += '\r'; break;
		  case 'b': v.s += '\b'; break; case 'f': v.s += '\f'; break;
		  case 'u':
		    {
		      char h[5] = {0, 0, 0, 0, 0};
		      for (int i = 0; i < 4 && p[1]; ++i) h[i] = *++p;
		      unsigned c = (unsigned) strtoul(h, 0, 16);
		      if (c < 0x80) v.s += (char) c;
		      else if (c < 0x800) { v.s += (char) (0xc0 | (c >> 6)); v.s += (char) (0x80 | (c & 0x3f)); }
		      else { v.s += (char) (0xe0 | (c >> 12)); v.s += (char) (0x80 | ((c >> 6) & 0x3f)); v.s += (char) (0x80 | (c & 0x3f)); }
		      break;
		    }
		  default: v.s += *p;
		  }
		++p;
	      }
	    else v.s += *p++;
	  }
	if (*p == '"') ++p; else ok = false;
      }
    else if (!strncmp(p, "true", 4)) { v.t = JVal::BOOL; v.b = true; p += 4; }
    else if (!strncmp(p, "false", 5)) { v.t = JVal::BOOL; v.b = false; p += 5; }
    else if (!strncmp(p, "null", 4)) { v.t = JVal::NUL; p += 4; }
    else if (*p == '-' || (*p >= '0' && *p <= '9'))
      {
	char *e; v.t = JVal::NUM; v.n = strtoll(p, &e, 10);
	if (*e == '.' || *e == 'e' || *e == 'E') { v.d = strtod(p, &e); v.n = (long long) v.d; } else v.d = (double) v.n;
	p = e;
      }
    else ok = false;
    return v;
  }
};

static inline std::string jesc(const std::string &s)
{
  std::string o;
  char buf[8];
  for (size_t i = 0; i < s.size(); ++i)
    {
      unsigned char c = (unsigned char) s[i];
      if (c == '"' || c == '\\') { o += '\\'; o += (char) c; }
      else if (c == '\n') o += "\\n";
      else if (c == '\t') o += "\\t";
      else if (c < 0x20) { snprintf(buf, sizeof buf, "\\u%04x", c); o += buf; }
      else o += (char) c;
    }
  return o;
}
#endif
