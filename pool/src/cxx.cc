// family "cxx": classes with bases, virtuals, templates, references, typedef chains.  -DV=0..2
#ifndef V
#define V 0
#endif
namespace geo {
struct base { virtual ~base() {} virtual int id() const { return 0; } int tag; };
struct mixin { long stamp; };
class circle : public base, public mixin {
  double r_;
#if V >= 1
  double extra_;
#endif
public:
  circle(double r) : r_(r) {}
  virtual int id() const { return 1; }
  double radius() const { return r_; }
  static int instances;
#if V >= 2
  virtual void scale(double f) { r_ *= f; }
#endif
};
int circle::instances = 0;
template <typename T> struct box { T lo, hi; T span() const { return hi - lo; } };
typedef box<int> ibox;
typedef ibox index_range;
typedef const index_range &range_ref;
int width(range_ref r) { return r.span(); }
double area(const circle &c) { return 3.14 * c.radius() * c.radius(); }
box<double> bounds(const circle *c) { box<double> b; b.lo = -c->radius(); b.hi = c->radius(); return b; }
base *make(int kind) { return kind ? new circle(1.0) : new base; }
enum class mode : short { fast, exact };
mode current_mode = mode::fast;
void set_mode(mode m) { current_mode = m; }
}
