// family "cxx": classes with bases, virtuals, templates, references, typedef chains.  -DV=0..2
#ifndef V
#define V 0
#endif
namespace geo {
struct base { virtual ~base() {} virtual int id() const { return 0; } int tag; };
struct mixin { long stamp; };
class circle : public base, public mixin {
  double r_;
#if V >= 1
  double extra_;
#endif
public:
  circle(double r) : r_(r) {}
  virtual int id() const { return 1; }
  double radius() const { return r_; }
  static int instances;
#if V >= 2
  virtual void scale(double f) { r_ *= f; }
#endif
};
int circle::instances = 0;
template <typename T> struct box { T lo, hi; T span() const { return hi - lo; } };
typedef box<int> ibox;
typedef ibox index_range;
typedef const index_range &range_ref;
int width(range_ref r) { return r.span(); }
double area(const circle &c) { return 3.14 * c.radius() * c.radius(); }
box<double> bounds(const circle *c) { box<double> b; b.lo = -c->radius(); b.hi = c->radius(); return b; }
base *make(int kind) { return kind ? new circle(1.0) : new base; }
enum class mode : short { fast, exact };
mode current_mode = mode::fast;
void set_mode(mode m) { current_mode = m; }
// overloads and constructors that share a qualified name and are all impacted by one leaf type change (settings grows in V >= 1)
struct settings { int level;
#if V >= 1
  int flags;
#endif
};
int process(const settings &s) { return s.level; }
int process(settings *s, int n) { return s->level + n; }
int process(settings s, double d) { return s.level + (int) d; }
long process(const settings *a, const settings *b) { return a->level + b->level; }
int process(settings &s, long n, long m) { return s.level + (int) (n + m); }
int process(const settings *s, char c) { return s->level + c; }
class worker {
  settings s_;
public:
  worker(const settings &s) : s_(s) {}
  worker(settings *s, int) : s_(*s) {}
  worker(const settings &a, const settings &b) : s_(a) { s_.level += b.level; }
  int run() const { return s_.level; }
};
int run_worker(const settings &s) { worker w(s); worker x(const_cast<settings *>(&s), 1); worker y(s, s); return w.run() + x.run() + y.run(); }
}
