/* Workload for C14: one library, two translation units that define different types under the same names
   (legal in C: the types have no linkage), plus anonymous types.  Comparators that tie on names must still
   produce an order that does not depend on addresses. */
#ifndef V
#define V 0
#endif
struct priv { int fd; int flags;
#if V >= 1
  int mode;
#endif
};
struct node { struct node *next; int key; };
typedef struct { int a; } cfg_t;
enum state { ST_A, ST_B
#if V >= 1
  , ST_C
#endif
};
static struct priv state_a;
static struct node *head_a;
static cfg_t cfg_a;
static enum state st_a;
struct { int x; } *anon_a1;
struct { long y; } *anon_a2;
struct { char z[3]; } *anon_a3;
union { int i; float f; } *anon_ua;
int reader_open(int fd) { state_a.fd = fd; state_a.flags = (int) st_a + cfg_a.a; return head_a ? head_a->key : state_a.fd; }
int reader_key(struct node *n) { return n ? n->key : 0; }
/* function types that differ only in an anonymous return type: their internal names tie */
struct ops_a {
  struct { int a; } (*get_a)(void);
  struct { long b; } (*get_b)(void);
  struct { char c[3]; } (*get_c)(void);
  struct { short d; int e; } (*get_d)(void);
  struct { double f; } (*get_f)(void);
  struct { void *g; } (*get_g)(void);
  union { int h; float i; } (*get_h)(void);
  union { long j; double k; } (*get_j)(void);
};
int reader_ops(struct ops_a *o) { return o && o->get_a ? 1 : 0; }
