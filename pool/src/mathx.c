/* family "mathx": plain functions over scalars and a struct by value; V changes a return type */
#ifndef V
#define V 0
#endif
struct vec3 { float x, y, z; };
float vec_dot(struct vec3 a, struct vec3 b) { return a.x * b.x + a.y * b.y + a.z * b.z; }
struct vec3 vec_add(struct vec3 a, struct vec3 b) { a.x += b.x; a.y += b.y; a.z += b.z; return a; }
#if V == 0
int vec_cmp(const struct vec3 *a, const struct vec3 *b) { return a->x < b->x; }
#else
long vec_cmp(const struct vec3 *a, const struct vec3 *b) { return a->x < b->x; }
#endif
unsigned char vec_flags[16];
