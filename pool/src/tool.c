/* a small executable family for the package workloads: abipkgdiff compares executables like shared objects */
#ifndef V
#define V 0
#endif
struct options { int verbose; int level;
#if V >= 1
  const char *output;
#endif
};
struct options global_options;
int tool_run(struct options *o) { return o->verbose + o->level; }
#if V >= 1
int tool_flush(struct options *o) { return o->output != 0; }
#endif
int main(void) { return tool_run(&global_options); }
