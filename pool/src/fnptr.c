/* family "fnptr": function pointers, arrays, unions, bit-fields, variadics.  -DV=0..1 */
#ifndef V
#define V 0
#endif
#include <stdarg.h>
typedef int (*cmp_fn)(const void *, const void *);
typedef unsigned long size_type;
typedef size_type length_t;
union value { int i; float f; char bytes[8];
#if V >= 1
  long long ll;
#endif
};
struct flags { unsigned a : 1; unsigned b : 3; unsigned c : 12; };
struct table { cmp_fn compare; union value slots[4]; struct flags fl; int matrix[3][5]; struct table *next; };
struct table *global_table;
length_t table_len(const struct table *t) { length_t n = 0; while (t) { ++n; t = t->next; } return n; }
int table_sort(struct table *t, cmp_fn f) { t->compare = f; return 0; }
int table_printf(struct table *t, const char *fmt, ...) { va_list ap; va_start(ap, fmt); va_end(ap); return t != 0; }
void (*table_hook(void (*h)(int)))(int) { return h; }
#if V >= 1
union value table_first(const struct table *t) { return t->slots[0]; }
#endif
