/* compiled twice into one library with different -DVARIANT: two compile units with the same path and
   two different 'struct ctx' declared at the same source location */
struct ctx {
  int id;
#if VARIANT == 1
  int small;
#else
  long big[4];
  char tag;
#endif
};
#if VARIANT == 1
int ctx_one(struct ctx *c) { return c->id + c->small; }
#else
long ctx_two(struct ctx *c) { return c->id + c->big[0] + c->tag; }
#endif
