/* an application using libshapes (for abicompat) */
struct point { int x; int y; };
struct shape;
extern int shape_count;
int shape_init(struct shape *s, int x, int y);
double shape_area(const struct shape *s);
const char *shape_name(const struct shape *s);
int main(void) { return shape_count + (shape_init(0, 1, 2) ? 1 : 0) + (int) shape_area(0) + (shape_name(0) != 0); }
