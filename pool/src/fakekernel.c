/* A stand-in for a Linux kernel image: what libabigail recognises a kernel by is the __ksymtab_strings section, and
   what it takes as the exported interface are the symbols that have a __ksymtab_<name> entry.  Enough to drive
   `abidw --linux-tree`, the third output path of abidw (write_corpus_group). */
#ifndef V
#define V 0
#endif
struct kobj { int refs; long flags;
#if V >= 1
  void *owner;
#endif
};
struct kernel_symbol { unsigned long value; const char *name; };
#define EXPORT_SYMBOL(sym) \
  static const char __kstrtab_##sym[] __attribute__((section("__ksymtab_strings"), used, aligned(1))) = #sym; \
  const struct kernel_symbol __ksymtab_##sym __attribute__((section("__ksymtab"), used)) = { (unsigned long)&sym, __kstrtab_##sym }
int kfunc(struct kobj *k) { return k->refs; }
long kvar;
int kget(const struct kobj *k, int which) { return which ? (int) k->flags : k->refs; }
int knot_exported(int x) { return x + 1; }
#if V >= 1
int kextra(struct kobj *k, int n) { return k->refs + n; }
EXPORT_SYMBOL(kextra);
#endif
EXPORT_SYMBOL(kfunc);
EXPORT_SYMBOL(kvar);
EXPORT_SYMBOL(kget);
void _start(void) {}
