#ifndef V
#define V 0
#endif
struct priv { char *buf; unsigned long len;
#if V >= 1
  unsigned long cap;
#endif
};
struct node { struct node *prev; struct node *next; long key; };
typedef struct { long a; long b; } cfg_t;
enum state { ST_X = 10, ST_Y = 20 };
static struct priv state_b;
static struct node *head_b;
static cfg_t cfg_b;
static enum state st_b;
struct { short x; } *anon_b1;
struct { double y; } *anon_b2;
struct { char z[5]; } *anon_b3;
union { long l; double d; } *anon_ub;
unsigned long writer_len(void) { return state_b.len + (state_b.buf != 0) + (unsigned long) st_b + (unsigned long) cfg_b.a + (head_b ? (unsigned long) head_b->key : 0); }
long writer_key(struct node *n) { return n ? n->key : 0; }
struct ops_b {
  struct { unsigned a; } (*get_a)(int);
  struct { unsigned long b; } (*get_b)(int);
  struct { unsigned char c[5]; } (*get_c)(int);
  struct { float d; int e; } (*get_d)(int);
  struct { long double f; } (*get_f)(int);
  struct { void **g; } (*get_g)(int);
};
long writer_ops(struct ops_b *o) { return o && o->get_b ? 2 : 0; }
