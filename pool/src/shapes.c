/* family "shapes": C structs, enums, globals.  -DV=0..3 */
#ifndef V
#define V 0
#endif
enum color { RED, GREEN, BLUE
#if V >= 2
  , ALPHA
#endif
};
struct point { int x; int y;
#if V >= 2
  int z;
#endif
};
struct shape { struct point origin; enum color c; const char *name; double area; };
int shape_count = 3;
#if V < 3
int shape_debug_level;
#endif
int shape_init(struct shape *s, int x, int y) { s->origin.x = x; s->origin.y = y; s->c = RED; return 0; }
double shape_area(const struct shape *s) { return s->area; }
enum color shape_color(const struct shape *s) { return s->c; }
#if V >= 1
void shape_move(struct shape *s, struct point by) { s->origin.x += by.x; s->origin.y += by.y; }
#endif
#if V < 3
const char *shape_name(const struct shape *s) { return s->name; }
#endif
