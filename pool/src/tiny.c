/* family "tiny": one function, no ABI difference between versions (V only changes the body) */
#ifndef V
#define V 0
#endif
int tiny_answer(void) { return 42 + V * 0; }
