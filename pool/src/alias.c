/* family "alias": symbol aliases and versioned symbols.  -DV=0..1 */
#ifndef V
#define V 0
#endif
struct ctx { int refs; void *priv; };
int real_open(struct ctx *c, int flags) { c->refs += flags; return 0; }
int my_open(struct ctx *c, int flags) __attribute__((alias("real_open")));
int my_open64(struct ctx *c, int flags) __attribute__((alias("real_open")));
int weak_hook(struct ctx *c) __attribute__((weak));
int weak_hook(struct ctx *c) { return c->refs; }
int counter_storage;
extern int counter_alias __attribute__((alias("counter_storage")));
int old_api_v1(int a) { return a; }
int new_api_v2(int a
#if V >= 1
  , int b
#endif
) { return a; }
__asm__(".symver old_api_v1,api@VERS_1.0");
__asm__(".symver new_api_v2,api@@VERS_2.0");
