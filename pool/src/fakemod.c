/* A stand-in for a kernel module (.modinfo and .gnu.linkonce.this_module sections, relocatable object). */
#ifndef V
#define V 0
#endif
struct kobj { int refs; long flags;
#if V >= 1
  void *owner;
#endif
};
struct mdata { struct kobj base; char tag[8]; };
struct kernel_symbol { unsigned long value; const char *name; };
#define EXPORT_SYMBOL(sym) \
  static const char __kstrtab_##sym[] __attribute__((section("__ksymtab_strings"), used, aligned(1))) = #sym; \
  const struct kernel_symbol __ksymtab_##sym __attribute__((section("__ksymtab"), used)) = { (unsigned long)&sym, __kstrtab_##sym }
static const char modinfo_license[] __attribute__((section(".modinfo"), used, aligned(1))) = "license=GPL";
struct module { char name[56]; } __this_module __attribute__((section(".gnu.linkonce.this_module"))) = { "fakemod" };
int mod_op(struct mdata *m) { return m->base.refs + m->tag[0]; }
#ifndef NOEXPORT       /* -DNOEXPORT: a module that exports nothing (legal, unusual) */
#if V >= 1
int mod_new(struct mdata *m) { return m->tag[1]; }
EXPORT_SYMBOL(mod_new);
#endif
EXPORT_SYMBOL(mod_op);
#endif
