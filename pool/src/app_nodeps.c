/* an application without any undefined symbol (a self-contained plugin): legal, unusual */
struct plugin_api { int version; int (*run)(int); };
static int run_impl(int x) { return x * 2; }
struct plugin_api plugin_entry = { 1, run_impl };
int plugin_main(int x) { return plugin_entry.run(x); }
